package conc

import (
	"math/rand"
	"sync"

	"github.com/Fantom-foundation/lachesis-base/utils/wlru"
)

// LRUHistories runs `runs` concurrent histories on fresh wlru caches.
func LRUHistories(h *Hist, seed int64, runs int, stats map[string]int) {
	bounds := [][2]int{{4, 2}, {3, 3}, {7, 3}, {2, 1}}
	for run := 0; run < runs; run++ {
		r := rand.New(rand.NewSource(seed*7919 + int64(run)))
		b := bounds[r.Intn(len(bounds))]
		c, _ := wlru.New(uint(b[0]), b[1])
		h.Reset(rec{"mw": b[0], "mn": b[1], "scen": run + 1})
		var wg sync.WaitGroup
		if run%10 == 9 {
			// a duel: one goroutine reads the compound (weight, number) pair in a tight loop while another mutates;
			// with two goroutines the linearization search stays linear, so the history can be long
			const duel = 300
			wg.Add(2)
			go func(gr *rand.Rand) {
				defer wg.Done()
				for i := 0; i < duel; i++ {
					h.Call(1, rec{"op": "total"})
					tw, tn := c.Total()
					h.Ret(1, rec{"w": tw, "n": tn})
				}
			}(rand.New(rand.NewSource(r.Int63())))
			go func(gr *rand.Rand) {
				defer wg.Done()
				for i := 0; i < duel; i++ {
					k, v, w := 1+gr.Intn(3), 1+gr.Intn(2), []int{1, 2, 5}[gr.Intn(3)]
					if gr.Intn(3) == 0 {
						h.Call(2, rec{"op": "remove", "k": k})
						h.Ret(2, rec{"ok": c.Remove(k)})
					} else {
						h.Call(2, rec{"op": "add", "k": k, "v": v, "w": w})
						ev := c.Add(k, v, uint(w))
						h.Ret(2, rec{"evicted": ev})
					}
				}
			}(rand.New(rand.NewSource(r.Int63())))
			wg.Wait()
			stats["lru_histories"]++
			stats["lru_duels"]++
			stats["lru_ops"] += 2 * duel
			continue
		}
		G := 2 + r.Intn(3)
		per := 2 + r.Intn(3)
		for g := 1; g <= G; g++ {
			wg.Add(1)
			go func(g int, gr *rand.Rand) {
				defer wg.Done()
				for i := 0; i < per; i++ {
					perturb(gr)
					k, v, w := 1+gr.Intn(3), 1+gr.Intn(2), []int{1, 2, 5}[gr.Intn(3)]
					switch gr.Intn(14) {
					case 0, 1, 2:
						h.Call(g, rec{"op": "add", "k": k, "v": v, "w": w})
						ev := c.Add(k, v, uint(w))
						h.Ret(g, rec{"evicted": ev})
					case 3, 4:
						h.Call(g, rec{"op": "get", "k": k})
						x, ok := c.Get(k)
						if !ok {
							x = 0
						}
						h.Ret(g, rec{"ok": ok, "v": x})
					case 5:
						h.Call(g, rec{"op": "peek", "k": k})
						x, ok := c.Peek(k)
						if !ok {
							x = 0
						}
						h.Ret(g, rec{"ok": ok, "v": x})
					case 6:
						h.Call(g, rec{"op": "contains", "k": k})
						h.Ret(g, rec{"ok": c.Contains(k)})
					case 7:
						h.Call(g, rec{"op": "remove", "k": k})
						h.Ret(g, rec{"ok": c.Remove(k)})
					case 8:
						h.Call(g, rec{"op": "removeoldest"})
						a, bb, ok := c.RemoveOldest()
						if !ok {
							a, bb = 0, 0
						}
						h.Ret(g, rec{"ok": ok, "k": a, "v": bb})
					case 9:
						h.Call(g, rec{"op": "containsoradd", "k": k, "v": v, "w": w})
						ok, ev := c.ContainsOrAdd(k, v, uint(w))
						h.Ret(g, rec{"ok": ok, "evicted": ev})
					case 10:
						h.Call(g, rec{"op": "peekoradd", "k": k, "v": v, "w": w})
						prev, ok, ev := c.PeekOrAdd(k, v, uint(w))
						if !ok {
							prev = 0
						}
						h.Ret(g, rec{"ok": ok, "prev": prev, "evicted": ev})
					case 11:
						h.Call(g, rec{"op": "total"})
						tw, tn := c.Total()
						h.Ret(g, rec{"w": tw, "n": tn})
					case 12:
						h.Call(g, rec{"op": "keys"})
						ks := c.Keys()
						if ks == nil {
							ks = []interface{}{}
						}
						h.Ret(g, rec{"keys": ks})
					case 13:
						nb := bounds[gr.Intn(len(bounds))]
						h.Call(g, rec{"op": "resize", "mw": nb[0], "mn": nb[1]})
						ev := c.Resize(uint(nb[0]), nb[1])
						h.Ret(g, rec{"evicted": ev})
					}
				}
			}(g, rand.New(rand.NewSource(r.Int63())))
		}
		wg.Wait()
		stats["lru_histories"]++
		stats["lru_ops"] += G * per
	}
}
