package msc

import (
	"bufio"
	"encoding/json"
	"fmt"
	"math/rand"
	"os"
	"sort"
	"strings"

	"github.com/Fantom-foundation/lachesis-base/emitter/ancestor"
	"github.com/Fantom-foundation/lachesis-base/hash"
)

// ---------------------------------------------------------------------------------------------
// C19: runs the cases enumerated by MC_ParentSelect.tla through the real ancestor.ChooseParents
// (patterns S+T).  Each case is run `runs` times (the options are offered to the strategies in Go's
// map order, the free strategies pick the first, the last or a random offer, and the metric ranks
// are embedded into uint64 in a different way in every run); the distinct
// results are written as trace lines and judged by TLC against ParentSelect!Valid.

type psCase struct {
	Op       string   `json:"op"`
	Existing []int    `json:"existing"`
	Options  []int    `json:"options"`
	Kinds    []string `json:"kinds"`
	Metric   []int    `json:"metric"`
}

type psResult struct {
	Op    string `json:"op"`
	Ok    bool   `json:"ok"`
	Res   []int  `json:"res"`
	N     int    `json:"n"`
	Panic string `json:"panic,omitempty"`
}

// a strategy that is free to choose: scripted pick of the first / last / a random offer
type freeStrategy struct {
	mode int
	r    *rand.Rand
}

func (s *freeStrategy) Choose(_ hash.Events, options hash.Events) int {
	switch s.mode {
	case 0:
		return 0
	case 1:
		return len(options) - 1
	}
	return s.r.Intn(len(options))
}

// strictly increasing embeddings of the ranks 0,1,2 into the metric type (uint64): small integers,
// values around 2^31 / 2^32, values 2^63 or more apart, the ends of the range
var psEmbeddings = [][]uint64{
	{0, 1, 2},
	{0, 1<<31 - 1, 1<<32 + 5},
	{1, 1<<63 + 1, 1<<64 - 1},
	{0, 10, 10 + 1<<63},
	{5, 1 << 63, 1<<64 - 2},
	{1 << 31, 1 << 32, 1<<63 - 1},
	{10, 11, 10 + 1<<63},
}

func psID(i int) hash.Event {
	var h hash.Event
	h[0] = 0xC1
	h[31] = byte(i)
	return h
}

// Long-lived strategy objects: the statement speaks about every selection on its own, so a strategy
// object that has served earlier selections (other options, other metrics) must behave like a fresh
// one.  Every second run of a case uses these shared objects (one per strategy slot) instead of
// fresh ones; their metric function reads the metric table of the selection in progress.
var psCurrentMetric func(hash.Event) ancestor.Metric
var psShared []*ancestor.MetricStrategy

func psSharedStrategy(slot int) *ancestor.MetricStrategy {
	for len(psShared) <= slot {
		psShared = append(psShared, ancestor.NewMetricStrategy(func(h hash.Event) ancestor.Metric { return psCurrentMetric(h) }))
	}
	return psShared[slot]
}

func psRun(c *psCase, run int, rnd *rand.Rand) (res []int, panicked string) {
	defer func() {
		if p := recover(); p != nil {
			panicked = fmt.Sprint(p)
		}
	}()
	back := map[hash.Event]int{}
	ev := func(ids []int) hash.Events {
		out := make(hash.Events, len(ids))
		for i, id := range ids {
			out[i] = psID(id)
			back[out[i]] = id
		}
		return out
	}
	// the specification's metric values are ranks: only their order matters for "an option of maximal
	// metric".  Each run embeds the ranks into uint64 through one of several strictly increasing maps.
	emb := psEmbeddings[run%len(psEmbeddings)]
	metricFn := func(h hash.Event) ancestor.Metric {
		id, ok := back[h]
		if !ok || id < 1 || id > len(c.Metric) {
			return 0
		}
		r := c.Metric[id-1]
		if r < 0 || r >= len(emb) {
			panic("metric rank outside the embeddings")
		}
		return ancestor.Metric(emb[r])
	}
	strategies := make([]ancestor.SearchStrategy, len(c.Kinds))
	for i, k := range c.Kinds {
		if k == "metric" && run%2 == 1 {
			psCurrentMetric = metricFn
			strategies[i] = psSharedStrategy(i)
		} else if k == "metric" {
			strategies[i] = ancestor.NewMetricStrategy(metricFn)
		} else if (run+i)%4 == 3 {
			strategies[i] = ancestor.NewRandomStrategy(rand.New(rand.NewSource(rnd.Int63())))
		} else {
			strategies[i] = &freeStrategy{mode: (run + i) % 3, r: rnd}
		}
	}
	out := ancestor.ChooseParents(ev(c.Existing), ev(c.Options), strategies)
	res = make([]int, len(out))
	for i, h := range out {
		id, ok := back[h]
		if !ok {
			id = -1
		}
		res[i] = id
	}
	return res, ""
}

// CmdParentsRun: vh parentsrun <cases.ndjson> <trace.ndjson> [runs]
func CmdParentsRun(args []string, seed int64) int {
	if len(args) < 2 {
		fmt.Fprintln(os.Stderr, "usage: vh parentsrun <cases.ndjson> <trace.ndjson> [runs]")
		return 2
	}
	runs := 20
	if len(args) > 2 {
		fmt.Sscan(args[2], &runs)
	}
	in, err := os.Open(args[0])
	if err != nil {
		fmt.Fprintln(os.Stderr, err)
		return 2
	}
	defer in.Close()
	outf, err := os.Create(args[1])
	if err != nil {
		fmt.Fprintln(os.Stderr, err)
		return 2
	}
	defer outf.Close()
	w := bufio.NewWriterSize(outf, 1<<20)
	defer w.Flush()
	enc := json.NewEncoder(w)
	rnd := rand.New(rand.NewSource(seed))
	stats := map[string]int{}
	sc := bufio.NewScanner(in)
	sc.Buffer(make([]byte, 1<<16), 1<<22)
	for sc.Scan() {
		if len(sc.Bytes()) == 0 {
			continue
		}
		var c psCase
		if err := json.Unmarshal(sc.Bytes(), &c); err != nil {
			fmt.Fprintln(os.Stderr, "bad case:", err)
			return 2
		}
		if c.Existing == nil {
			c.Existing = []int{}
		}
		if c.Options == nil {
			c.Options = []int{}
		}
		if c.Kinds == nil {
			c.Kinds = []string{}
		}
		enc.Encode(&c)
		stats["cases"]++
		count := map[string]*psResult{}
		var order []string
		for r := 0; r < runs; r++ {
			res, p := psRun(&c, r, rnd)
			stats["runs"]++
			key := fmt.Sprint(res, p)
			if x, ok := count[key]; ok {
				x.N++
				continue
			}
			if res == nil {
				res = []int{}
			}
			count[key] = &psResult{Op: "result", Ok: p == "", Res: res, N: 1, Panic: p}
			order = append(order, key)
		}
		sort.Strings(order)
		for _, k := range order {
			enc.Encode(count[k])
			stats["result_lines"]++
		}
		if len(order) > 1 {
			stats["cases_with_several_results"]++
		}
		// what the case exercises (inputs only)
		exs := map[int]bool{}
		for _, x := range c.Existing {
			exs[x] = true
		}
		avail := map[int]bool{}
		dup, overlap := false, false
		seen := map[int]bool{}
		for _, o := range c.Options {
			if seen[o] {
				dup = true
			}
			seen[o] = true
			if exs[o] {
				overlap = true
			} else {
				avail[o] = true
			}
		}
		if dup {
			stats["cases_with_duplicate_options"]++
		}
		if overlap {
			stats["cases_with_option_equal_to_existing"]++
		}
		if len(avail) < len(c.Kinds) {
			stats["cases_options_exhausted"]++
		}
		if len(avail) > len(c.Kinds) && len(c.Kinds) > 0 {
			stats["cases_more_options_than_strategies"]++
		}
		if strings.Contains(strings.Join(c.Kinds, ","), "metric") && len(avail) > 1 {
			stats["cases_metric_with_choice"]++
			m := map[int]int{}
			for o := range avail {
				m[c.Metric[o-1]]++
			}
			mx := -1
			for v := range m {
				if v > mx {
					mx = v
				}
			}
			if m[mx] > 1 {
				stats["cases_metric_tie_at_max"]++
			}
		}
	}
	if sc.Err() != nil {
		fmt.Fprintln(os.Stderr, sc.Err())
		return 2
	}
	w.Flush()
	json.NewEncoder(os.Stdout).Encode(stats)
	return 0
}
