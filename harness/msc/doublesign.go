package msc

import (
	"fmt"
	"math/big"
	"strings"
	"time"

	"verifharness/replay"

	"github.com/Fantom-foundation/lachesis-base/emitter/doublesign"
)

// ---------------------------------------------------------------------------------------------
// C21: vectors of MC_DoubleSign.tla run through the real SyncedToEmit / DetectParallelInstance.
// TLC works at 16 "ticks" per unit; a value x stands for units*2^60 + offset nanoseconds with
// units = floor((x+8)/16) and offset = x - 16*units (a change of unit, proved harmless for the
// specification's operators in DoubleSignProofs.tla).  The harness converts the inputs to
// time.Time / time.Duration, calls the code, and converts the returned wait back; the expected
// verdict and wait are TLC's.

var two60 = new(big.Int).Lsh(big.NewInt(1), 60)

func floorDiv(a, b int64) int64 {
	q := a / b
	if (a%b != 0) && ((a < 0) != (b < 0)) {
		q--
	}
	return q
}

// nanoseconds denoted by the tick value x
func dsNanos(x int64) *big.Int {
	u := floorDiv(x+8, 16)
	e := x - 16*u
	n := new(big.Int).Mul(big.NewInt(u), two60)
	return n.Add(n, big.NewInt(e))
}

func dsTime(x int64) time.Time {
	n := dsNanos(x)
	sec, nsec := new(big.Int).DivMod(n, big.NewInt(1000000000), new(big.Int)) // Euclidean: 0 <= nsec < 1e9
	return time.Unix(sec.Int64(), nsec.Int64())
}

func dsDuration(x int64) (time.Duration, error) {
	n := dsNanos(x)
	if !n.IsInt64() {
		return 0, fmt.Errorf("tick value %d is not a representable duration", x)
	}
	return time.Duration(n.Int64()), nil
}

// tick value of a duration returned by the code, or a string if it is not units*2^60 + small offset
func dsTicks(d time.Duration) interface{} {
	n := big.NewInt(int64(d))
	half := new(big.Int).Rsh(two60, 1)
	u, _ := new(big.Int).DivMod(new(big.Int).Add(n, half), two60, new(big.Int))
	e := new(big.Int).Sub(n, new(big.Int).Mul(u, two60))
	if e.CmpAbs(big.NewInt(7)) > 0 {
		return fmt.Sprintf("ns:%d", int64(d))
	}
	return u.Int64()*16 + e.Int64()
}

type dsInst struct{}

func (dsInst) Close()               {}
func (dsInst) Project() interface{} { return 0 }

func (dsInst) Apply(act map[string]interface{}) (map[string]interface{}, error) {
	in, _ := act["in"].(map[string]interface{})
	want, _ := act["res"].(map[string]interface{})
	op, _ := act["op"].(string)
	i64 := func(v interface{}) int64 { f, _ := v.(float64); return int64(f) }
	thr, err := dsDuration(i64(in["thr"]))
	if err != nil {
		return nil, err
	}
	now := dsTime(i64(in["now"]))
	switch {
	case strings.HasPrefix(op, "synced/"):
		ts, _ := in["ts"].(map[string]interface{})
		s := doublesign.SyncStatus{
			PeersNum:                  int(i64(in["peers"])),
			Now:                       now,
			Startup:                   dsTime(i64(ts["synced"])),
			LastConnected:             dsTime(i64(ts["connected"])),
			P2PSynced:                 dsTime(i64(ts["synced"])),
			BecameValidator:           dsTime(i64(ts["validator"])),
			ExternalSelfEventCreated:  dsTime(i64(ts["created"])),
			ExternalSelfEventDetected: dsTime(i64(ts["detected"])),
		}
		if synced, _ := in["synced"].(bool); !synced {
			s.P2PSynced = time.Time{} // "P2P sync not finished"
		}
		wait, err := doublesign.SyncedToEmit(s, thr)
		res := map[string]interface{}{"permitted": err == nil}
		if _, constrained := want["wait"]; constrained {
			res["wait"] = dsTicks(wait)
		}
		return map[string]interface{}{"res": res}, nil
	case strings.HasPrefix(op, "parallel/"):
		s := doublesign.SyncStatus{
			PeersNum:                 1,
			Now:                      now,
			Startup:                  dsTime(i64(in["startup"])),
			ExternalSelfEventCreated: dsTime(i64(in["created"])),
		}
		return map[string]interface{}{"res": map[string]interface{}{"parallel": doublesign.DetectParallelInstance(s, thr)}}, nil
	}
	return nil, fmt.Errorf("unknown op %q", op)
}

func DoubleSignAdapters() []replay.Adapter {
	return []replay.Adapter{{Name: "doublesign", New: func(interface{}) (replay.Inst, error) { return dsInst{}, nil }}}
}
