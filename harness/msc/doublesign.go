package msc

import (
	"encoding/json"
	"fmt"
	"math/big"
	"strings"
	"time"

	"verifharness/replay"

	"github.com/Fantom-foundation/lachesis-base/emitter/doublesign"
)

// ---------------------------------------------------------------------------------------------
// C21: vectors of MC_DoubleSign.tla run through the real SyncedToEmit / DetectParallelInstance.
// TLC works at 16 "ticks" per unit; a value x stands for units*2^60 + offset nanoseconds with
// units = floor((x+8)/16) and offset = x - 16*units (a change of unit, proved harmless for the
// specification's operators in DoubleSignProofs.tla).  The harness converts the inputs to
// time.Time / time.Duration, calls the code, and converts the returned wait back; the expected
// verdict and wait are TLC's.
//
// Every vector is run in several *representations* of the same instants (time.Time values that
// denote the same instant but differ in location pointer, in carrying a monotonic clock reading, or
// in how they were constructed); the set of distinct outcomes is returned and must be the
// singleton the specification gives.  Fields named in the vector's `zero` set are the zero instant
// (a timestamp that was never set), again in several representations.

var two60 = new(big.Int).Lsh(big.NewInt(1), 60)

func floorDiv(a, b int64) int64 {
	q := a / b
	if (a%b != 0) && ((a < 0) != (b < 0)) {
		q--
	}
	return q
}

// nanoseconds denoted by the tick value x
func dsNanos(x int64) *big.Int {
	u := floorDiv(x+8, 16)
	e := x - 16*u
	n := new(big.Int).Mul(big.NewInt(u), two60)
	return n.Add(n, big.NewInt(e))
}

func dsDuration(x int64) (time.Duration, error) {
	n := dsNanos(x)
	if !n.IsInt64() {
		return 0, fmt.Errorf("tick value %d is not a representable duration", x)
	}
	return time.Duration(n.Int64()), nil
}

// tick value of a duration returned by the code, or a string if it is not units*2^60 + small offset
func dsTicks(d time.Duration) interface{} {
	n := big.NewInt(int64(d))
	half := new(big.Int).Rsh(two60, 1)
	u, _ := new(big.Int).DivMod(new(big.Int).Add(n, half), two60, new(big.Int))
	e := new(big.Int).Sub(n, new(big.Int).Mul(u, two60))
	if e.CmpAbs(big.NewInt(7)) > 0 {
		return fmt.Sprintf("ns:%d", int64(d))
	}
	return u.Int64()*16 + e.Int64()
}

var dsZone = time.FixedZone("verif+0330", 3*3600+1800)

const dsRepresentations = 9

// representations 6..8 move the whole vector to another origin (the specification only uses differences of
// instants): `now` one hour before the zero instant of time.Time, in the year -100, and at Unix time -2^40 s.
// They are skipped for vectors with an unset timestamp, whose meaning depends on where the zero instant lies.
var dsOrigins = []time.Time{
	time.Time{}.Add(-time.Hour),
	time.Date(-100, time.March, 1, 12, 0, 0, 7, time.UTC),
	time.Unix(-1<<40, 0),
}

// dsClock builds the time.Time values of one vector in one representation.
type dsClock struct {
	rep    int
	nowX   int64     // tick value of the vector's `now`
	origin time.Time // representation 4: the real time.Now() (carries a monotonic reading) stands for `now`
}

func newDsClock(rep int, nowX int64) *dsClock {
	return &dsClock{rep: rep, nowX: nowX, origin: time.Now()}
}

func unixOf(n *big.Int) time.Time {
	sec, nsec := new(big.Int).DivMod(n, big.NewInt(1000000000), new(big.Int)) // Euclidean: 0 <= nsec < 1e9
	return time.Unix(sec.Int64(), nsec.Int64())
}

// at returns the instant denoted by tick value x; field tells the fields of one vector apart
func (c *dsClock) at(x int64, field int) time.Time {
	t := unixOf(dsNanos(x))
	switch c.rep {
	case 0: // time.Unix: local location
		return t
	case 1:
		return t.UTC()
	case 2:
		return t.In(dsZone)
	case 3: // rebuilt from stored seconds and nanoseconds, monotonic reading stripped
		return time.Unix(t.Unix(), int64(t.Nanosecond())).Round(0)
	case 4, 6, 7, 8: // 4: all instants derived from one time.Now(): they carry monotonic clock readings while in range
		d := new(big.Int).Sub(dsNanos(x), dsNanos(c.nowX))
		r := c.origin
		if c.rep >= 6 {
			r = dsOrigins[c.rep-6]
			if field%2 == 1 {
				r = r.In(dsZone)
			}
		}
		step := big.NewInt(int64(7) << 60)
		for d.Sign() != 0 {
			s := new(big.Int).Set(d)
			if s.CmpAbs(step) > 0 {
				s.Set(step)
				if d.Sign() < 0 {
					s.Neg(s)
				}
			}
			r = r.Add(time.Duration(s.Int64()))
			d.Sub(d, s)
		}
		return r
	default: // a different representation for every field of the vector
		switch field % 3 {
		case 0:
			return t.UTC()
		case 1:
			return t.In(dsZone)
		}
		return t
	}
}

// zero returns the zero instant (an unset timestamp) in one of its representations
func (c *dsClock) zero(field int) time.Time {
	switch (c.rep + field) % 5 {
	case 0:
		return time.Time{}
	case 1:
		return time.Unix(time.Time{}.Unix(), 0)
	case 2:
		return time.Time{}.Local()
	case 3:
		return time.Time{}.In(dsZone)
	}
	return time.Time{}.UTC()
}

type dsInst struct{}

func (dsInst) Close()               {}
func (dsInst) Project() interface{} { return 0 }

func (dsInst) Apply(act map[string]interface{}) (map[string]interface{}, error) {
	in, _ := act["in"].(map[string]interface{})
	wantSet, _ := act["res"].([]interface{})
	op, _ := act["op"].(string)
	i64 := func(v interface{}) int64 { f, _ := v.(float64); return int64(f) }
	thr, err := dsDuration(i64(in["thr"]))
	if err != nil {
		return nil, err
	}
	waitConstrained := false
	for _, w := range wantSet {
		if m, ok := w.(map[string]interface{}); ok {
			if _, has := m["wait"]; has {
				waitConstrained = true
			}
		}
	}
	isZero := map[string]bool{}
	if zs, ok := in["zero"].([]interface{}); ok {
		for _, z := range zs {
			isZero[fmt.Sprint(z)] = true
		}
	}
	nowX := i64(in["now"])
	distinct := map[string]interface{}{}
	synced, _ := in["synced"].(bool)
	for rep := 0; rep < dsRepresentations; rep++ {
		if rep >= 6 && (len(isZero) > 0 || (strings.HasPrefix(op, "synced/") && !synced)) {
			continue
		}
		c := newDsClock(rep, nowX)
		get := func(name string, x interface{}, field int) time.Time {
			if isZero[name] {
				return c.zero(field)
			}
			return c.at(i64(x), field)
		}
		var res map[string]interface{}
		switch {
		case strings.HasPrefix(op, "synced/"):
			ts, _ := in["ts"].(map[string]interface{})
			s := doublesign.SyncStatus{
				PeersNum:                  int(i64(in["peers"])),
				Now:                       c.at(nowX, 0),
				Startup:                   get("startup", ts["synced"], 1),
				LastConnected:             get("connected", ts["connected"], 2),
				P2PSynced:                 get("synced", ts["synced"], 3),
				BecameValidator:           get("validator", ts["validator"], 4),
				ExternalSelfEventCreated:  get("created", ts["created"], 5),
				ExternalSelfEventDetected: get("detected", ts["detected"], 6),
			}
			if !synced {
				s.P2PSynced = c.zero(3) // "P2P sync not finished": the timestamp was never set
			}
			wait, err := doublesign.SyncedToEmit(s, thr)
			res = map[string]interface{}{"permitted": err == nil}
			if waitConstrained {
				res["wait"] = dsTicks(wait)
			}
		case strings.HasPrefix(op, "parallel/"):
			s := doublesign.SyncStatus{
				PeersNum:                 1,
				Now:                      c.at(nowX, 0),
				Startup:                  get("startup", in["startup"], 1),
				ExternalSelfEventCreated: get("created", in["created"], 2),
			}
			res = map[string]interface{}{"parallel": doublesign.DetectParallelInstance(s, thr)}
		default:
			return nil, fmt.Errorf("unknown op %q", op)
		}
		b, _ := json.Marshal(res)
		distinct[string(b)] = res
	}
	out := make(replay.Set, 0, len(distinct))
	for _, r := range distinct {
		out = append(out, r)
	}
	return map[string]interface{}{"res": out}, nil
}

func DoubleSignAdapters() []replay.Adapter {
	return []replay.Adapter{{Name: "doublesign", New: func(interface{}) (replay.Inst, error) { return dsInst{}, nil }}}
}
