package msc

import (
	"fmt"

	"verifharness/replay"

	"github.com/Fantom-foundation/lachesis-base/abft/dagidx"
	"github.com/Fantom-foundation/lachesis-base/emitter/ancestor"
	"github.com/Fantom-foundation/lachesis-base/hash"
	"github.com/Fantom-foundation/lachesis-base/inter/dag/tdag"
	"github.com/Fantom-foundation/lachesis-base/inter/idx"
	"github.com/Fantom-foundation/lachesis-base/inter/pos"
)

// ---------------------------------------------------------------------------------------------
// C20: replay of QuorumIndexer.tla edges on a real ancestor.QuorumIndexer (pattern R).
// The indexer reads merged clocks from a DagIndex; the harness supplies a stub whose clocks are
// exactly the vectors of the TLC script (a fork is reported through IsForkDetected, the code itself
// turns it into its "maximal observation"), and the diff function of MC_QuorumIndexer.tla, which
// encodes its four arguments injectively.  Medians and metrics are only read, never computed, here.

const qiFork = 2147483646 // the value printed by the specification for a fork observation

type qiSeq struct {
	seq  idx.Event
	fork bool
}

func (s qiSeq) Seq() idx.Event       { return s.seq }
func (s qiSeq) IsForkDetected() bool { return s.fork }

// clock by validator id (1-based), as printed by TLC
type qiClock struct {
	vals *pos.Validators
	c    []int
}

func (c qiClock) Size() int { return len(c.c) }
func (c qiClock) Get(i idx.Validator) dagidx.Seq {
	x := c.c[int(c.vals.GetID(i))-1]
	if x == qiFork {
		return qiSeq{0, true}
	}
	return qiSeq{idx.Event(x), false}
}

type qiIndex struct {
	clocks map[hash.Event]qiClock
}

func (d *qiIndex) GetMergedHighestBefore(id hash.Event) dagidx.HighestBeforeSeq {
	c, ok := d.clocks[id]
	if !ok {
		panic("stub index: unknown event " + id.String())
	}
	return c
}

type qiInst struct {
	vals  *pos.Validators
	dagi  *qiIndex
	qi    *ancestor.QuorumIndexer
	cands [][]int
	n     int
	flip  int
}

func ints(v interface{}) []int {
	a, _ := v.([]interface{})
	out := make([]int, len(a))
	for i, x := range a {
		out[i] = num(x)
	}
	return out
}

func num(v interface{}) int {
	f, _ := v.(float64)
	return int(f)
}

func qiIx(x idx.Event) uint64 {
	if x == qiFork {
		return 3
	}
	if x > 2 {
		return 1000003 + uint64(x) // outside the alphabet: cannot collide with an encoded value
	}
	return uint64(x)
}

func newQI(pre interface{}) (replay.Inst, error) {
	p := pre.(map[string]interface{})
	w := ints(p["w"])
	b := pos.NewBuilder()
	for i, x := range w {
		b.Set(idx.ValidatorID(i+1), pos.Weight(x))
	}
	in := &qiInst{vals: b.Build(), dagi: &qiIndex{clocks: map[hash.Event]qiClock{}}}
	pow := []uint64{0, 1, 64, 4096}
	diff := func(median, current, update idx.Event, vi idx.Validator) ancestor.Metric {
		id := in.vals.GetID(vi)
		return ancestor.Metric((qiIx(median)*16 + qiIx(current)*4 + qiIx(update)) * pow[id])
	}
	in.qi = ancestor.NewQuorumIndexer(in.vals, in.dagi, diff)
	for _, c := range p["cands"].([]interface{}) {
		in.cands = append(in.cands, ints(c))
	}
	// establish the pre-state: the node's own latest event first, then every validator's latest event
	in.process(1, ints(p["self"]), true)
	for u, c := range p["latest"].([]interface{}) {
		in.process(u+1, ints(c), false)
	}
	return in, nil
}

func (in *qiInst) event(creator int, clock []int) *tdag.TestEvent {
	in.n++
	e := &tdag.TestEvent{}
	e.SetEpoch(1)
	e.SetCreator(idx.ValidatorID(creator))
	e.SetSeq(idx.Event(in.n))
	e.SetLamport(idx.Lamport(in.n))
	var rid [24]byte
	rid[0], rid[1], rid[2], rid[3] = byte(in.n>>24), byte(in.n>>16), byte(in.n>>8), byte(in.n)
	e.SetID(rid)
	in.dagi.clocks[e.ID()] = qiClock{in.vals, clock}
	return e
}

func (in *qiInst) process(creator int, clock []int, self bool) {
	in.qi.ProcessEvent(in.event(creator, clock), self)
}

func (in *qiInst) Close() {}

func (in *qiInst) Apply(act map[string]interface{}) (map[string]interface{}, error) {
	switch act["op"] {
	case "process":
		self, _ := act["self"].(bool)
		in.process(num(act["creator"]), ints(act["clock"]), self)
		return map[string]interface{}{}, nil
	}
	return nil, fmt.Errorf("unknown op %v", act["op"])
}

// Project reads GetGlobalMedianSeqs (re-ordered from validator index to validator id) and GetMetricOf
// of one candidate event per clock of the script; the two are read in alternating order.
func (in *qiInst) Project() interface{} {
	in.flip++
	var med []interface{}
	readMed := func() {
		m := in.qi.GetGlobalMedianSeqs()
		med = make([]interface{}, in.vals.Len())
		for id := 1; id <= int(in.vals.Len()); id++ {
			med[id-1] = m[in.vals.GetIdx(idx.ValidatorID(id))]
		}
	}
	if in.flip%2 == 0 {
		readMed()
	}
	metric := make([]interface{}, 0, len(in.cands))
	for _, c := range in.cands {
		e := in.event(1, c)
		metric = append(metric, map[string]interface{}{"clock": c, "value": uint64(in.qi.GetMetricOf(e.ID()))})
	}
	if in.flip%2 != 0 {
		readMed()
	}
	return map[string]interface{}{"median": med, "metric": metric}
}

func QuorumAdapters() []replay.Adapter {
	return []replay.Adapter{{Name: "quorumindexer", New: newQI}}
}
