package msc

import (
	"bufio"
	"encoding/json"
	"flag"
	"fmt"
	"os"
	"sync"
	"time"

	"github.com/Fantom-foundation/lachesis-base/inter/dag"
	"github.com/Fantom-foundation/lachesis-base/inter/idx"
	"github.com/Fantom-foundation/lachesis-base/utils/datasemaphore"
)

// ---------------------------------------------------------------------------------------------
// C30: runs the driver scripts enumerated by MC_SemScen.tla on a real DataSemaphore in real time
// and records call / ret / warn / settled lines (patterns S+T+L).  Blocking Acquire calls run in
// their own goroutines; TryAcquire / Release / Terminate are called by the driver.  After every
// step the driver waits `settle` ms so that callers that were woken can return, then records the
// held amount (Processing()).  Nothing is judged here.

type semStep struct {
	Fn      string `json:"fn"`
	W       [2]int `json:"w"`
	Timeout int    `json:"timeout"`
}

type semScenario struct {
	Cap    *[2]int   `json:"cap,omitempty"` // capacity of the semaphore, (2, 4) unless the script says otherwise
	Script []semStep `json:"script"`
}

type semLine map[string]interface{}

type semRun struct {
	mu    sync.Mutex
	lines []semLine
	start time.Time
}

func (r *semRun) at() int { return int(time.Since(r.start) / time.Millisecond) }

func (r *semRun) log(l semLine) {
	r.mu.Lock()
	l["at"] = r.at()
	r.lines = append(r.lines, l)
	r.mu.Unlock()
}

func metric(w [2]int) dag.Metric { return dag.Metric{Num: idx.Event(w[0]), Size: uint64(w[1])} }
func pair(m dag.Metric) [2]int   { return [2]int{int(m.Num), int(m.Size)} }

const semSleepMs = 230 // > short timeout (30) + slack (150)

func runSemScenario(sc semScenario, id int, settle, slack int) []semLine {
	r := &semRun{start: time.Now()}
	capacity := [2]int{2, 4}
	if sc.Cap != nil {
		capacity = *sc.Cap
	}
	r.log(semLine{"op": "reset", "id": id, "cap": capacity, "slack": slack, "settle": settle, "script": sc.Script})
	sem := datasemaphore.New(metric(capacity), func(received, processing, releasing dag.Metric) {
		r.log(semLine{"op": "warn", "received": pair(received), "processing": pair(processing), "releasing": pair(releasing)})
	})
	var wg sync.WaitGroup
	returned := map[int]bool{}
	var rmu sync.Mutex
	g := 0
	settled := func() {
		time.Sleep(time.Duration(settle) * time.Millisecond)
		r.log(semLine{"op": "settled", "held": pair(sem.Processing())})
	}
	script := append(append([]semStep{}, sc.Script...), semStep{Fn: "term"}) // always ends with Terminate
	for _, st := range script {
		switch st.Fn {
		case "acq":
			g++
			id := g
			w, timeout := metric(st.W), time.Duration(st.Timeout)*time.Millisecond
			r.log(semLine{"op": "call", "g": id, "fn": "acq", "w": st.W, "timeout": st.Timeout})
			wg.Add(1)
			go func() {
				defer wg.Done()
				t0 := time.Now()
				ok := sem.Acquire(w, timeout)
				el := int(time.Since(t0) / time.Millisecond)
				r.log(semLine{"op": "ret", "g": id, "ok": ok, "el": el})
				rmu.Lock()
				returned[id] = true
				rmu.Unlock()
			}()
		case "try":
			r.log(semLine{"op": "call", "g": 0, "fn": "try", "w": st.W, "timeout": 0})
			t0 := time.Now()
			ok := sem.TryAcquire(metric(st.W))
			r.log(semLine{"op": "ret", "g": 0, "ok": ok, "el": int(time.Since(t0) / time.Millisecond)})
		case "rel":
			r.log(semLine{"op": "call", "g": 0, "fn": "rel", "w": st.W, "timeout": 0})
			t0 := time.Now()
			sem.Release(metric(st.W))
			r.log(semLine{"op": "ret", "g": 0, "ok": true, "el": int(time.Since(t0) / time.Millisecond)})
		case "term":
			r.log(semLine{"op": "call", "g": 0, "fn": "term", "w": [2]int{0, 0}, "timeout": 0})
			t0 := time.Now()
			sem.Terminate()
			r.log(semLine{"op": "ret", "g": 0, "ok": true, "el": int(time.Since(t0) / time.Millisecond)})
		case "sleep": // for a sleep step `timeout` is its length in ms (0: the default)
			ms := semSleepMs
			if st.Timeout > 0 {
				ms = st.Timeout
			}
			time.Sleep(time.Duration(ms) * time.Millisecond)
		}
		settled()
	}
	// every caller must have returned after Terminate; give stragglers one second, then report them
	done := make(chan struct{})
	go func() { wg.Wait(); close(done) }()
	select {
	case <-done:
	case <-time.After(time.Second):
		rmu.Lock()
		for id := 1; id <= g; id++ {
			if !returned[id] {
				r.log(semLine{"op": "stuck", "g": id})
			}
		}
		rmu.Unlock()
	}
	r.mu.Lock()
	defer r.mu.Unlock()
	return append([]semLine{}, r.lines...)
}

// CmdSemRun: vh semrun [-par N -settle ms -slack ms] <scenarios.ndjson> <trace.ndjson>
func CmdSemRun(args []string) int {
	fs := flag.NewFlagSet("semrun", flag.ExitOnError)
	par := fs.Int("par", 48, "scenarios running at the same time")
	settle := fs.Int("settle", 25, "ms the driver waits after each step")
	slack := fs.Int("slack", 150, "ms a caller may take to return after its timeout")
	fs.Parse(args)
	if fs.NArg() < 2 {
		fmt.Fprintln(os.Stderr, "usage: vh semrun [flags] <scenarios.ndjson> <trace.ndjson>")
		return 2
	}
	in, err := os.Open(fs.Arg(0))
	if err != nil {
		fmt.Fprintln(os.Stderr, err)
		return 2
	}
	defer in.Close()
	var scens []semScenario
	sc := bufio.NewScanner(in)
	sc.Buffer(make([]byte, 1<<16), 1<<22)
	for sc.Scan() {
		if len(sc.Bytes()) == 0 {
			continue
		}
		var s semScenario
		if err := json.Unmarshal(sc.Bytes(), &s); err != nil {
			fmt.Fprintln(os.Stderr, "bad scenario:", err)
			return 2
		}
		scens = append(scens, s)
	}
	results := make([][]semLine, len(scens))
	sem := make(chan struct{}, *par)
	var wg sync.WaitGroup
	t0 := time.Now()
	for i := range scens {
		wg.Add(1)
		sem <- struct{}{}
		go func(i int) {
			defer wg.Done()
			defer func() { <-sem }()
			results[i] = runSemScenario(scens[i], i, *settle, *slack)
		}(i)
	}
	wg.Wait()
	out, err := os.Create(fs.Arg(1))
	if err != nil {
		fmt.Fprintln(os.Stderr, err)
		return 2
	}
	defer out.Close()
	w := bufio.NewWriterSize(out, 1<<20)
	enc := json.NewEncoder(w)
	stats := map[string]int{"scenarios": len(scens)}
	for _, ls := range results {
		blocked := map[int]bool{}
		wokenBefore := map[int]bool{} // callers that were blocked while a Release returned
		for _, l := range ls {
			if l["op"] == "call" && l["fn"] == "rel" {
				for g := range blocked {
					wokenBefore[g] = true
				}
			}
			if l["op"] == "settled" && len(blocked) >= 2 {
				stats["settled_with_two_or_more_blocked_callers"]++
			}
			enc.Encode(l)
			stats["lines"]++
			switch l["op"] {
			case "warn":
				stats["warnings"]++
			case "stuck":
				stats["stuck"]++
			case "settled":
				for g := range blocked {
					if blocked[g] {
						stats["settled_with_blocked_caller"]++
						break
					}
				}
			case "call":
				if l["fn"] == "acq" {
					blocked[l["g"].(int)] = true
				}
			case "ret":
				g := l["g"].(int)
				ok := l["ok"].(bool)
				if g > 0 {
					delete(blocked, g)
					el := l["el"].(int)
					switch {
					case ok && el >= 5:
						stats["acquire_granted_after_waiting"]++
					case ok:
						stats["acquire_granted_at_once"]++
					case el >= 25:
						stats["acquire_refused_after_waiting"]++
						if wokenBefore[g] {
							stats["acquire_refused_after_being_woken_by_a_release"]++
						}
					default:
						stats["acquire_refused_at_once"]++
					}
				}
			}
		}
	}
	w.Flush()
	stats["wall_ms"] = int(time.Since(t0) / time.Millisecond)
	json.NewEncoder(os.Stdout).Encode(stats)
	return 0
}
