// Package msc holds the harness parts of the "msc" family: C19 parent selection, C20 quorum indexer,
// C21 double-sign guard, C30 events semaphore, C33 root registry.
//
// Nothing in this package decides a verdict from a model of its own: every expected value is read
// from TLC output (edges emitted by the specifications under specs/msc) or the recorded behaviour is
// handed back to TLC (trace validation).
package msc

import (
	"bufio"
	"encoding/json"
	"flag"
	"fmt"
	"math/rand"
	"os"
	"sort"
	"sync"

	"github.com/Fantom-foundation/lachesis-base/abft"
	"github.com/Fantom-foundation/lachesis-base/hash"
	"github.com/Fantom-foundation/lachesis-base/inter/dag"
	"github.com/Fantom-foundation/lachesis-base/inter/dag/tdag"
	"github.com/Fantom-foundation/lachesis-base/inter/idx"
	"github.com/Fantom-foundation/lachesis-base/inter/pos"
	"github.com/Fantom-foundation/lachesis-base/kvdb"
	"github.com/Fantom-foundation/lachesis-base/kvdb/memorydb"
)

// ---------------------------------------------------------------------------------------------
// C33: replay of RootStore.tla edges on a real abft.Store (pattern R).
//
// An edge is {"pre": answers, "act": {...}, "post": answers}; "answers" is what GetFrameRoots must
// return for the frames 1..MaxFrame+1, each a set of triples [frame, creator, id].
// The real store hides a cache whose content depends on the history, and the only public way to read
// the roots (GetFrameRoots) changes that cache.  Therefore the pre-state of an edge is established in
// several ways ("variants": cold cache, warmed before/after the registrations, after an epoch that
// left other roots behind, interleaved with queries), the action is applied, its result is compared
// with act.res, and then a per-edge subset of the frames is queried and compared with `post`.

type triple [3]int

type rootsAct struct {
	Op  string   `json:"op"`
	Spf int      `json:"spf"`
	F   int      `json:"f"`
	V   int      `json:"v"`
	ID  int      `json:"id"`
	Res []triple `json:"res"`
}

type rootsEdge struct {
	Pre  [][]triple `json:"pre"`
	Act  rootsAct   `json:"act"`
	Post [][]triple `json:"post"`
}

type nullSource struct{}

func (nullSource) HasEvent(hash.Event) bool      { return false }
func (nullSource) GetEvent(hash.Event) dag.Event { return nil }

type nullIndex struct{}

func (nullIndex) ForklessCause(a, b hash.Event) bool { return false }

type rootsInst struct {
	store *abft.Store
	ord   *abft.Orderer
	vals  *pos.Validators
	epoch idx.Epoch
	dups  int
}

func newRootsInst(num uint, frames int) (*rootsInst, error) {
	crit := func(err error) { panic(err) }
	cfg := abft.StoreConfig{Cache: abft.StoreCacheConfig{RootsNum: num, RootsFrames: frames}}
	in := &rootsInst{epoch: 1}
	in.store = abft.NewStore(memorydb.New(), func(idx.Epoch) kvdb.Store { return memorydb.New() }, crit, cfg)
	b := pos.NewBuilder()
	b.Set(1, 1)
	b.Set(2, 1)
	in.vals = b.Build()
	if err := in.store.ApplyGenesis(&abft.Genesis{Epoch: in.epoch, Validators: in.vals}); err != nil {
		return nil, err
	}
	in.ord = abft.NewOrderer(in.store, nullSource{}, nullIndex{}, crit, abft.LiteConfig())
	if err := in.ord.Bootstrap(abft.OrdererCallbacks{}); err != nil {
		return nil, err
	}
	return in, nil
}

func (in *rootsInst) add(spf, f, v, id int) {
	e := &tdag.TestEvent{}
	e.SetEpoch(in.epoch)
	e.SetCreator(idx.ValidatorID(v))
	e.SetFrame(idx.Frame(f))
	e.SetLamport(1)
	var rid [24]byte
	rid[0] = byte(id)
	rid[23] = 0x5a
	e.SetID(rid)
	in.store.AddRoot(idx.Frame(spf), e)
}

// get projects GetFrameRoots(f) to a set of [frame, creator, id]; an id that does not belong to the
// current epoch (or is not one of the harness's ids) is projected to a negative number.
func (in *rootsInst) get(f int) []triple {
	rr := in.store.GetFrameRoots(idx.Frame(f))
	seen := map[triple]bool{}
	out := make([]triple, 0, len(rr))
	for _, r := range rr {
		b := r.ID.Bytes()
		id := int(b[8])
		if idx.BytesToEpoch(b[0:4]) != in.epoch || b[31] != 0x5a {
			id = -1000 - id
		}
		t := triple{int(r.Slot.Frame), int(r.Slot.Validator), id}
		if seen[t] {
			in.dups++
			continue
		}
		seen[t] = true
		out = append(out, t)
	}
	sortTriples(out)
	return out
}

func (in *rootsInst) switchEpoch() error {
	in.epoch++
	return in.ord.Reset(in.epoch, in.vals)
}

func (in *rootsInst) close() { in.store.Close() }

func sortTriples(t []triple) {
	sort.Slice(t, func(i, j int) bool {
		for k := 0; k < 3; k++ {
			if t[i][k] != t[j][k] {
				return t[i][k] < t[j][k]
			}
		}
		return false
	})
}

func sameSet(want, got []triple) bool {
	if len(want) != len(got) {
		return false
	}
	w := append([]triple{}, want...)
	sortTriples(w)
	for i := range w {
		if w[i] != got[i] {
			return false
		}
	}
	return true
}

const rootsVariants = 5

var rootsVariantName = []string{"cold", "warm-after", "warm-before", "after-old-epoch", "interleaved"}

// establish builds the abstract state `ans` on a fresh store, in one of several histories.
func (in *rootsInst) establish(ans [][]triple, variant int, rnd *rand.Rand) error {
	var all []triple
	for _, fr := range ans {
		all = append(all, fr...)
	}
	nf := len(ans)
	queryAll := func() {
		for f := 1; f <= nf; f++ {
			in.get(f)
		}
	}
	addAll := func() {
		for _, t := range all {
			in.add(t[0]-1, t[0], t[1], t[2])
		}
	}
	switch variant {
	case 0:
		addAll()
	case 1:
		addAll()
		queryAll()
	case 2:
		queryAll()
		addAll()
	case 3:
		// an earlier epoch leaves roots (and cache entries) behind
		for f := 1; f < nf; f++ {
			for v := 1; v <= 2; v++ {
				in.add(f-1, f, v, 1+(f+v)%3)
			}
		}
		if rnd.Intn(2) == 0 {
			in.add(0, nf-1, 1, 3)
		}
		queryAll()
		if err := in.switchEpoch(); err != nil {
			return err
		}
		if rnd.Intn(2) == 0 {
			queryAll()
		}
		addAll()
	case 4:
		// registrations in random order, spans of frames merged when one event is a root of consecutive
		// frames, queries in between
		has := map[triple]bool{}
		for _, t := range all {
			has[t] = true
		}
		perm := rnd.Perm(len(all))
		done := map[triple]bool{}
		for _, i := range perm {
			t := all[i]
			if done[t] {
				continue
			}
			lo, hi := t[0], t[0]
			for has[triple{lo - 1, t[1], t[2]}] && rnd.Intn(2) == 0 {
				lo--
			}
			for has[triple{hi + 1, t[1], t[2]}] && rnd.Intn(2) == 0 {
				hi++
			}
			for f := lo; f <= hi; f++ {
				done[triple{f, t[1], t[2]}] = true
			}
			in.add(lo-1, hi, t[1], t[2])
			if rnd.Intn(2) == 0 {
				in.get(1 + rnd.Intn(nf))
			}
		}
	}
	return nil
}

type rootsMismatch struct {
	Kind    string      `json:"kind"`
	Op      string      `json:"op"`
	Sig     string      `json:"sig"`
	Cache   string      `json:"cache"`
	Variant string      `json:"variant,omitempty"`
	Mode    string      `json:"mode"`
	Edge    *rootsEdge  `json:"edge,omitempty"`
	Frame   int         `json:"frame,omitempty"`
	Want    interface{} `json:"want"`
	Got     interface{} `json:"got"`
	Path    []rootsAct  `json:"path,omitempty"`
}

type rootsReport struct {
	Edges         int             `json:"edges"`
	Applied       int             `json:"applied"`
	Configs       int             `json:"configs"`
	Variants      int             `json:"variants"`
	Probes        int             `json:"probes"`
	Walks         int             `json:"walks"`
	WalkSteps     int             `json:"walk_steps"`
	WalkGets      int             `json:"walk_gets"`
	Ops           map[string]int  `json:"ops"`
	NonEmptyGets  int             `json:"nonempty_gets"`
	GetAfterWarm  int             `json:"gets_on_warm_cache"`
	Dups          int             `json:"duplicate_entries_in_answers"`
	MismatchCount int             `json:"mismatch_count"`
	Sigs          map[string]int  `json:"sigs"`
	Mismatches    []rootsMismatch `json:"mismatches"`
	Sample        []rootsEdge     `json:"sample"`
	mu            sync.Mutex
}

func (r *rootsReport) add(m rootsMismatch) {
	r.mu.Lock()
	defer r.mu.Unlock()
	r.MismatchCount++
	r.Sigs[m.Sig]++
	if len(r.Mismatches) < 12 && r.Sigs[m.Sig] <= 2 {
		r.Mismatches = append(r.Mismatches, m)
	}
}

type cacheCfg struct {
	num    uint
	frames int
}

func (c cacheCfg) String() string { return fmt.Sprintf("%dx%d", c.num, c.frames) }

func rootsApply(in *rootsInst, a *rootsAct) (res []triple, err error) {
	switch a.Op {
	case "add":
		in.add(a.Spf, a.F, a.V, a.ID)
	case "get":
		res = in.get(a.F)
	case "switch":
		err = in.switchEpoch()
	default:
		err = fmt.Errorf("unknown op %q", a.Op)
	}
	return
}

// one edge on one cache configuration with one variant of the history
func rootsEdgeOnce(e *rootsEdge, ei int, cfg cacheCfg, variant int, seed int64, rep *rootsReport) (probes int) {
	sigBase := "rootstore:" + e.Act.Op
	defer func() {
		if p := recover(); p != nil {
			rep.add(rootsMismatch{Kind: "panic", Op: e.Act.Op, Sig: sigBase + ":panic", Cache: cfg.String(),
				Variant: rootsVariantName[variant], Mode: "edge", Edge: e, Got: fmt.Sprint(p)})
		}
	}()
	rnd := rand.New(rand.NewSource(seed*1000003 + int64(ei)*31 + int64(variant)))
	in, err := newRootsInst(cfg.num, cfg.frames)
	if err != nil {
		panic(err)
	}
	defer in.close()
	if err := in.establish(e.Pre, variant, rnd); err != nil {
		panic(err)
	}
	res, err := rootsApply(in, &e.Act)
	if err != nil {
		panic(err)
	}
	if e.Act.Op == "get" && !sameSet(e.Act.Res, res) {
		rep.add(rootsMismatch{Kind: "res", Op: "get", Sig: sigBase + ":res", Cache: cfg.String(),
			Variant: rootsVariantName[variant], Mode: "edge", Edge: e, Frame: e.Act.F, Want: e.Act.Res, Got: res})
	}
	// probe a subset of the frames of the post-state, in an order that depends on the edge
	nf := len(e.Post)
	mask := 1 + rnd.Intn(1<<uint(nf)-1)
	order := rnd.Perm(nf)
	for _, k := range order {
		if mask&(1<<uint(k)) == 0 {
			continue
		}
		got := in.get(k + 1)
		probes++
		if !sameSet(e.Post[k], got) {
			rep.add(rootsMismatch{Kind: "post", Op: e.Act.Op, Sig: sigBase + ":post", Cache: cfg.String(),
				Variant: rootsVariantName[variant], Mode: "edge", Edge: e, Frame: k + 1, Want: e.Post[k], Got: got})
		}
	}
	if in.dups > 0 {
		rep.mu.Lock()
		rep.Dups += in.dups
		rep.mu.Unlock()
	}
	return
}

func canonAns(a [][]triple) string {
	b, _ := json.Marshal(a)
	return string(b)
}

// CmdRootsReplay: vh rootsreplay [-variants all|rotate] [-par N] [-walks W -len L] <edges.ndjson>
func CmdRootsReplay(args []string, seed int64) int {
	fs := flag.NewFlagSet("rootsreplay", flag.ExitOnError)
	variants := fs.String("variants", "all", "all: every edge under every history variant; rotate: one variant per (edge, configuration)")
	par := fs.Int("par", 6, "worker goroutines")
	walks := fs.Int("walks", 0, "random walks (per configuration) through the edge graph; needs a closed graph")
	wlen := fs.Int("len", 30, "length of each walk")
	noEdges := fs.Bool("noedges", false, "walks only")
	fs.Parse(args)
	if fs.NArg() < 1 {
		fmt.Fprintln(os.Stderr, "usage: vh rootsreplay [flags] <edges.ndjson>")
		return 2
	}
	var cfgs []cacheCfg
	for _, n := range []uint{0, 1, 2, 50} {
		for _, f := range []int{0, 1, 2, 5} {
			cfgs = append(cfgs, cacheCfg{n, f})
		}
	}
	rep := &rootsReport{Ops: map[string]int{}, Sigs: map[string]int{}, Configs: len(cfgs), Variants: rootsVariants}
	f, err := os.Open(fs.Arg(0))
	if err != nil {
		fmt.Fprintln(os.Stderr, err)
		return 2
	}
	defer f.Close()
	type job struct {
		i    int
		line []byte
	}
	jobs := make(chan job, 1024)
	var wg sync.WaitGroup
	keepGraph := *walks > 0
	var gmu sync.Mutex
	var graph []rootsEdge
	for w := 0; w < *par; w++ {
		wg.Add(1)
		go func() {
			defer wg.Done()
			probes, applied := 0, 0
			ops := map[string]int{}
			nonEmpty := 0
			for j := range jobs {
				var e rootsEdge
				if err := json.Unmarshal(j.line, &e); err != nil {
					panic(fmt.Errorf("bad edge line %d: %v", j.i, err))
				}
				if keepGraph {
					gmu.Lock()
					graph = append(graph, e)
					gmu.Unlock()
				}
				if *noEdges {
					continue
				}
				for ci, cfg := range cfgs {
					if *variants == "all" {
						for v := 0; v < rootsVariants; v++ {
							probes += rootsEdgeOnce(&e, j.i, cfg, v, seed, rep)
							applied++
						}
					} else {
						probes += rootsEdgeOnce(&e, j.i, cfg, (j.i+ci+int(seed))%rootsVariants, seed, rep)
						applied++
					}
				}
				ops[e.Act.Op]++
				if e.Act.Op == "get" && len(e.Act.Res) > 0 {
					nonEmpty++
				}
				if j.i%100003 == 0 {
					rep.mu.Lock()
					if len(rep.Sample) < 3 {
						rep.Sample = append(rep.Sample, e)
					}
					rep.mu.Unlock()
				}
			}
			rep.mu.Lock()
			rep.Probes += probes
			rep.Applied += applied
			rep.NonEmptyGets += nonEmpty
			for k, v := range ops {
				rep.Ops[k] += v
			}
			rep.mu.Unlock()
		}()
	}
	sc := bufio.NewScanner(f)
	sc.Buffer(make([]byte, 1<<20), 1<<26)
	n := 0
	for sc.Scan() {
		if len(sc.Bytes()) == 0 {
			continue
		}
		jobs <- job{n, append([]byte{}, sc.Bytes()...)}
		n++
	}
	close(jobs)
	wg.Wait()
	rep.Edges = n
	if sc.Err() != nil {
		fmt.Fprintln(os.Stderr, sc.Err())
		return 2
	}

	if *walks > 0 {
		byPre := map[string][]int{}
		for i := range graph {
			k := canonAns(graph[i].Pre)
			byPre[k] = append(byPre[k], i)
		}
		var start string
		for i := range graph {
			empty := true
			for _, fr := range graph[i].Pre {
				if len(fr) != 0 {
					empty = false
				}
			}
			if empty {
				start = canonAns(graph[i].Pre)
				break
			}
		}
		type wjob struct {
			cfg cacheCfg
			w   int
		}
		wjobs := make(chan wjob, 64)
		var wg2 sync.WaitGroup
		for w := 0; w < *par; w++ {
			wg2.Add(1)
			go func() {
				defer wg2.Done()
				for j := range wjobs {
					rootsWalk(graph, byPre, start, j.cfg, j.w, *wlen, seed, rep)
				}
			}()
		}
		for _, cfg := range cfgs {
			for w := 0; w < *walks; w++ {
				wjobs <- wjob{cfg, w}
			}
		}
		close(wjobs)
		wg2.Wait()
	}
	json.NewEncoder(os.Stdout).Encode(rep)
	return 0
}

// a random walk through the graph on one long-lived store; nothing is read between the steps
// except by the walk's own "get" actions, and all frames are read at the end.
func rootsWalk(graph []rootsEdge, byPre map[string][]int, start string, cfg cacheCfg, w, wlen int, seed int64, rep *rootsReport) {
	rnd := rand.New(rand.NewSource(seed*7919 + int64(w)*104729 + int64(cfg.num)*17 + int64(cfg.frames)))
	var path []rootsAct
	var cur = start
	var last *rootsEdge
	steps, gets, warm := 0, 0, 0
	defer func() {
		if p := recover(); p != nil {
			rep.add(rootsMismatch{Kind: "panic", Op: "walk", Sig: "rootstore:walk:panic", Cache: cfg.String(), Mode: "walk",
				Got: fmt.Sprint(p), Path: path})
		}
		rep.mu.Lock()
		rep.Walks++
		rep.WalkSteps += steps
		rep.WalkGets += gets
		rep.GetAfterWarm += warm
		rep.mu.Unlock()
	}()
	in, err := newRootsInst(cfg.num, cfg.frames)
	if err != nil {
		panic(err)
	}
	defer in.close()
	queried := map[int]bool{}
	for s := 0; s < wlen; s++ {
		cands := byPre[cur]
		if len(cands) == 0 {
			break
		}
		// queries are a small share of the edges of a state; give them about a third of the steps,
		// epoch switches about one step in twenty
		var pool []int
		r := rnd.Intn(60)
		want := "add"
		if r < 20 {
			want = "get"
		} else if r < 23 {
			want = "switch"
		}
		for _, i := range cands {
			if graph[i].Act.Op == want {
				pool = append(pool, i)
			}
		}
		if len(pool) == 0 {
			pool = cands
		}
		e := &graph[pool[rnd.Intn(len(pool))]]
		res, err := rootsApply(in, &e.Act)
		if err != nil {
			panic(err)
		}
		path = append(path, e.Act)
		steps++
		if e.Act.Op == "get" {
			gets++
			if queried[e.Act.F] {
				warm++
			}
			queried[e.Act.F] = true
			if !sameSet(e.Act.Res, res) {
				rep.add(rootsMismatch{Kind: "res", Op: "get", Sig: "rootstore:get:res", Cache: cfg.String(), Mode: "walk",
					Frame: e.Act.F, Want: e.Act.Res, Got: res, Path: append([]rootsAct{}, path...)})
				return
			}
		}
		last = e
		cur = canonAns(e.Post)
	}
	if last != nil {
		for k := range last.Post {
			got := in.get(k + 1)
			if !sameSet(last.Post[k], got) {
				rep.add(rootsMismatch{Kind: "post", Op: "walk-end", Sig: "rootstore:walk-end:post", Cache: cfg.String(), Mode: "walk",
					Frame: k + 1, Want: last.Post[k], Got: got, Path: append([]rootsAct{}, path...)})
				return
			}
		}
	}
}
