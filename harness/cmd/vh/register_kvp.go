package main

import "verifharness/kvp"

func init() {
	register(kvp.CachedAdapters()...)
	register(kvp.MDBAdapters()...)
	commands["crashrun"] = kvp.CmdCrashRun
	commands["cachedconc"] = kvp.CmdCachedConc
}
