package main

import "verifharness/lach"

func init() {
	commands["lachreplay"] = func(a []string) int { return lach.CmdReplayStates(a, seed()) }
	commands["vecreplay"] = lach.CmdVecReplay
	commands["lachsearch"] = func(a []string) int { return lach.CmdSearch(a, seed()) }
	commands["lachrecord"] = func(a []string) int { return lach.CmdRecord(a, seed()) }
}
