// vh — the Go side of /verif: replays TLC-explored transitions into the real code (pattern R)
// and records traces of the real code for validation against the TLA+ trace specifications (pattern T).
package main

import (
	"encoding/json"
	"flag"
	"fmt"
	"os"
	"strconv"

	"verifharness/replay"
)

var adapters = map[string]replay.Adapter{}
var commands = map[string]func(args []string) int{}

func register(as ...replay.Adapter) {
	for _, a := range as {
		adapters[a.Name] = a
	}
}

func seed() int64 {
	s, err := strconv.ParseInt(os.Getenv("VERIF_SEED"), 10, 64)
	if err != nil {
		return 1
	}
	return s
}

func cmdReplay(args []string) int {
	fs := flag.NewFlagSet("replay", flag.ExitOnError)
	walks := fs.Int("walks", 200, "random walks through the edge graph")
	wlen := fs.Int("len", 50, "length of each walk")
	fs.Parse(args)
	if fs.NArg() < 2 {
		fmt.Fprintln(os.Stderr, "usage: vh replay [-walks N -len L] <adapter> <edges.ndjson>")
		return 2
	}
	a, ok := adapters[fs.Arg(0)]
	if !ok {
		fmt.Fprintln(os.Stderr, "unknown adapter", fs.Arg(0))
		return 2
	}
	edges, err := replay.LoadEdges(fs.Arg(1))
	if err != nil {
		fmt.Fprintln(os.Stderr, err)
		return 2
	}
	rep := replay.Run(a, edges, replay.Options{Walks: *walks, WalkLen: *wlen, Seed: seed()})
	json.NewEncoder(os.Stdout).Encode(rep)
	return 0
}

func main() {
	commands["replay"] = cmdReplay
	registerAll()
	if len(os.Args) < 2 {
		fmt.Fprintln(os.Stderr, "usage: vh <command> ...")
		os.Exit(2)
	}
	c, ok := commands[os.Args[1]]
	if !ok {
		fmt.Fprintln(os.Stderr, "unknown command", os.Args[1])
		os.Exit(2)
	}
	os.Exit(c(os.Args[2:]))
}
