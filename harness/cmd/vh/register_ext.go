package main

import "verifharness/ext"

func init() {
	register(ext.PrqueAdapters()...)
	register(ext.WMedianAdapters()...)
	register(ext.KVWrapAdapters()...)
	register(ext.LazyAdapters()...)
	commands["extworkers"] = func(a []string) int { return ext.CmdWorkers(a, seed()) }
	commands["extreplay"] = func(a []string) int { return ext.CmdReplayND(a, seed(), adapters) }
}
