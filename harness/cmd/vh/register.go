package main

import (
	"verifharness/util"
)

func registerAll() {
	register(util.LRUAdapters()...)
}
