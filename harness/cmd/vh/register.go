package main

import (
	"verifharness/gossip"
	"verifharness/util"
)

func registerAll() {
	register(util.LRUAdapters()...)
	commands["bufrun"] = gossip.CmdBufRun
	commands["bufconc"] = func(a []string) int { return gossip.CmdBufConc(a, seed()) }
}
