package main

import (
	"verifharness/msc"
)

func init() {
	register(msc.QuorumAdapters()...)
	register(msc.DoubleSignAdapters()...)
	commands["parentsrun"] = func(a []string) int { return msc.CmdParentsRun(a, seed()) }
	commands["semrun"] = msc.CmdSemRun
	commands["rootsreplay"] = func(a []string) int { return msc.CmdRootsReplay(a, seed()) }
}
