package main

import "verifharness/kv"

func init() {
	commands["kvreplay"] = func(a []string) int { return kv.CmdReplay(a, seed()) }
}
