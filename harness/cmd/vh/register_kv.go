package main

import "verifharness/kv"

func init() {
	commands["kvreplay"] = func(a []string) int { return kv.CmdReplay(a, seed()) }
	commands["kvtiter"] = func(a []string) int { return kv.CmdTableIter(a, seed()) }
	commands["kvconfirm"] = func(a []string) int { return kv.CmdConfirm(a) }
	commands["kviter"] = func(a []string) int { return kv.CmdIterHold(a, seed()) }
}
