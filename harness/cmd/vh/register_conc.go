package main

import "verifharness/conc"

func init() {
	commands["concrace"] = func(a []string) int { return conc.CmdConcRace(a, seed()) }
	commands["concrecord"] = func(a []string) int { return conc.CmdConcRecord(a, seed()) }
}
