package main

import (
	"verifharness/gsp"
)

// commands of the gsp family (C15 event processor, C16 items fetcher, C17 stream seeder, C18 leechers)
func init() {
	commands["gsp-baseleecher"] = gsp.CmdBaseLeecherRun
	commands["gsp-peerleecher"] = gsp.CmdPeerLeecherRun
	commands["gsp-seeder"] = gsp.CmdSeederRun
	commands["gsp-fetcher"] = gsp.CmdFetcherRun
	commands["gsp-processor"] = func(a []string) int { return gsp.CmdProcessorRun(a, seed()) }
}
