package main

import "verifharness/fn"

func init() {
	register(fn.CounterAdapters()...)
	register(fn.ValidatorAdapters()...)
	register(fn.SeqObjAdapters()...)
	commands["fnvec"] = fn.CmdVec
	commands["fnsweep"] = fn.CmdSweep
	commands["fnpiece"] = fn.CmdPiece
	commands["fnevent"] = fn.CmdEvent
}
