package lach

import (
	"bufio"
	"encoding/json"
	"io"

	"github.com/Fantom-foundation/lachesis-base/hash"
	"github.com/Fantom-foundation/lachesis-base/inter/idx"
)

type line map[string]interface{}

// Recorder writes the ndjson trace of one or more instances (scenarios separated by reset lines).
type Recorder struct {
	w     *bufio.Writer
	Lines int
	Scen  int
	Stats map[string]int

	lastAtropos  hash.Event
	curJump      int
	prevCheaters []int                   // cheater list of the previous block of the epoch
	maxDelivered map[idx.ValidatorID]int // highest sequence number delivered so far per creator (current epoch of the current instance)
}

func NewRecorder(w io.Writer) *Recorder {
	return &Recorder{w: bufio.NewWriterSize(w, 1<<20), Stats: map[string]int{}}
}

func (r *Recorder) Flush() { r.w.Flush() }

func (r *Recorder) emit(l line) {
	b, _ := json.Marshal(l)
	r.w.Write(b)
	r.w.WriteByte('\n')
	r.Lines++
}

func valsJSON(vs []ValW) [][2]int {
	out := make([][2]int, len(vs))
	for i, v := range vs {
		out[i] = [2]int{int(v.ID), int(v.W)}
	}
	return out
}

func (r *Recorder) Reset(epoch idx.Epoch, vals []ValW, byz bool) {
	r.Scen++
	r.maxDelivered = map[idx.ValidatorID]int{}
	r.emit(line{"op": "reset", "scen": r.Scen, "epoch": int(epoch), "vals": valsJSON(vals), "byz": byz})
	r.Stats["scenarios"]++
}

func evFields(s *Scenario, ev *Ev, fr idx.Frame) line {
	ps := ev.Ps
	if ps == nil {
		ps = []int{}
	}
	return line{"id": ev.ID, "cr": int(ev.Cr), "sq": ev.Sq, "sp": ev.SP, "ps": ps, "fr": int(fr)}
}

func (r *Recorder) blocksJSON(s *Scenario, blocks []BlockRec) []line {
	out := make([]line, 0, len(blocks))
	for _, b := range blocks {
		ch := make([]int, 0, len(b.Cheaters))
		for _, c := range b.Cheaters {
			ch = append(ch, int(c))
		}
		evs := make([]int, 0, len(b.Applied))
		late := false
		blockMax := map[idx.ValidatorID]int{}
		for _, h := range b.Applied {
			evs = append(evs, s.idOf(h))
			if e, ok := s.ByHash[h]; ok {
				if r.maxDelivered != nil && e.Sq <= r.maxDelivered[e.Cr] {
					late = true // an event of a fork branch delivered after an earlier block delivered the same or a higher sequence number of its creator
				}
				if e.Sq > blockMax[e.Cr] {
					blockMax[e.Cr] = e.Sq
				}
			}
		}
		if r.maxDelivered == nil {
			r.maxDelivered = map[idx.ValidatorID]int{}
		}
		for cr, m := range blockMax {
			if m > r.maxDelivered[cr] {
				r.maxDelivered[cr] = m
			}
		}
		if late {
			r.Stats["blocks_delivering_an_older_fork_branch"]++
		}
		if b.Frame > 1 {
			for _, pc := range r.prevCheaters {
				found := false
				for _, x := range ch {
					found = found || x == pc
				}
				if !found {
					r.Stats["cheater_of_a_block_missing_in_the_next_block"]++ // the next Atropos does not descend from the fork observation
					break
				}
			}
		}
		r.prevCheaters = ch
		if b.Seal != nil {
			r.maxDelivered = map[idx.ValidatorID]int{}
			r.prevCheaters = nil
		}
		seal := [][2]int{}
		if b.Seal != nil {
			seal = valsJSON(s.NextVals(b.Epoch))
			r.Stats["seals"]++
			if len(out) > 0 {
				r.Stats["seals_inside_a_cascade"]++ // the sealing block is not the first block decided by this call
				if r.curJump >= 2 {
					r.Stats["seals_inside_a_cascade_of_a_multi_frame_root"]++
				}
			}
		}
		out = append(out, line{"atr": s.idOf(b.Atropos), "fr": int(b.Frame), "ch": ch, "evs": evs, "seal": seal})
		r.Stats["blocks"]++
		if len(ch) > 0 {
			r.Stats["blocks_with_cheaters"]++
		}
		for i := 1; i < len(ch); i++ {
			if ch[i] < ch[i-1] {
				r.Stats["cheater_lists_not_in_id_order"]++
				break
			}
		}
		if b.Frame == 1 {
			r.Stats["epoch_first_blocks"]++
		}
		if len(b.Applied) > 260 {
			r.Stats["blocks_over_260_events"]++
		}
	}
	return out
}

func (s *Scenario) idOf(h hash.Event) int {
	if e, ok := s.ByHash[h]; ok {
		return e.ID
	}
	return -1
}

// ProcessLine records one Process call of the given instance.
func (r *Recorder) ProcessLine(s *Scenario, in *Inst, ev *Ev, err error, blocks []BlockRec) {
	l := evFields(s, ev, ev.Frame)
	l["op"] = "p"
	l["ok"] = err == nil
	r.curJump = 0
	if sp, ok := s.ByID[ev.SP]; ok {
		r.curJump = int(ev.Frame) - int(sp.Frame)
	}
	l["blocks"] = r.blocksJSON(s, blocks)
	l["ep"] = int(in.Store.GetEpoch())
	l["ldf"] = int(in.Store.GetLastDecidedFrame())
	r.emit(l)
	if err == nil {
		r.Stats["accepted"]++
		spf := idx.Frame(0)
		if sp, ok := s.ByID[ev.SP]; ok {
			spf = sp.Frame
		}
		if ev.Frame >= spf+2 && ev.SP != 0 {
			r.Stats["roots_jumping_frames"]++
		}
		if ev.SP == 0 && len(ev.Ps) > 0 {
			r.Stats["late_first_events"]++
		}
	} else {
		r.Stats["rejected"]++
	}
	for i := range blocks {
		if i > 0 && blocks[i].Atropos == blocks[i-1].Atropos {
			r.Stats["atropos_of_two_frames"]++
		}
		if i == 0 && r.lastAtropos == blocks[i].Atropos && blocks[i].Frame > 1 {
			r.Stats["atropos_of_two_frames"]++
		}
		r.lastAtropos = blocks[i].Atropos
	}
}

// ProcessCloneLine records a Process call with an arbitrary claimed frame (the event gets a fresh id).
func (r *Recorder) ProcessCloneLine(s *Scenario, in *Inst, ev *Ev, cloneID int, fr idx.Frame, err error, blocks []BlockRec) {
	l := evFields(s, ev, fr)
	l["id"] = cloneID
	l["op"] = "p"
	l["ok"] = err == nil
	l["blocks"] = r.blocksJSON(s, blocks)
	l["ep"] = int(in.Store.GetEpoch())
	l["ldf"] = int(in.Store.GetLastDecidedFrame())
	r.emit(l)
	if err == nil {
		r.Stats["clone_accepted"]++
	} else {
		r.Stats["clone_rejected"]++
	}
}

func (r *Recorder) BuildLine(s *Scenario, ev *Ev, fr idx.Frame) {
	l := evFields(s, ev, fr)
	l["id"] = 0
	l["op"] = "b"
	r.emit(l)
	r.Stats["builds"]++
	if sp, ok := s.ByID[ev.SP]; ok && fr == sp.Frame+100 {
		r.Stats["builds_at_cap"]++
	}
}

func (r *Recorder) RestartLine(in *Inst) {
	r.emit(line{"op": "restart", "ep": int(in.Store.GetEpoch()), "ldf": int(in.Store.GetLastDecidedFrame())})
	r.Stats["restarts"]++
}

func (r *Recorder) FC(a, b int, res bool) {
	r.emit(line{"op": "fc", "a": a, "b": b, "r": res})
	r.Stats["fc_queries"]++
	if res {
		r.Stats["fc_true"]++
	}
}

func (r *Recorder) MHB(e int, v []int, src string) {
	r.emit(line{"op": "mhb", "e": e, "v": v, "src": src})
	r.Stats["mhb_queries"]++
	for _, x := range v {
		if x == -1 {
			r.Stats["mhb_fork_entries"]++
		}
	}
}

func (r *Recorder) End() { r.emit(line{"op": "end"}) }

// Crit records that the instance reported a critical error (it is unusable afterwards).
func (r *Recorder) Crit(msg string) {
	if len(msg) > 7 && msg[:7] == "panic: " {
		// a panic that is not a crit() call: never a legitimate step, also not in Byzantine runs
		r.emit(line{"op": "panic", "msg": msg})
		r.Stats["panics"]++
		return
	}
	r.emit(line{"op": "crit", "msg": msg})
	r.Stats["critical_errors"]++
}
