package lach

import (
	"bufio"
	"encoding/json"
	"fmt"
	"os"

	"github.com/Fantom-foundation/lachesis-base/hash"
	"github.com/Fantom-foundation/lachesis-base/inter/dag"
	"github.com/Fantom-foundation/lachesis-base/inter/dag/tdag"
	"github.com/Fantom-foundation/lachesis-base/inter/idx"
	"github.com/Fantom-foundation/lachesis-base/inter/pos"
	"github.com/Fantom-foundation/lachesis-base/kvdb/memorydb"
	"github.com/Fantom-foundation/lachesis-base/utils/adapters"
	"github.com/Fantom-foundation/lachesis-base/utils/cachescale"
	"github.com/Fantom-foundation/lachesis-base/vecfc"
)

// VecState is one terminal state of specs/lachesis/VecIndex.tla.
type VecState struct {
	W      []int `json:"w"`
	Events []struct {
		Cr int   `json:"cr"`
		Sq int   `json:"sq"`
		SP int   `json:"sp"`
		Ps []int `json:"ps"`
	} `json:"events"`
	FC     [][]bool `json:"fc"`
	Merged [][]int  `json:"merged"`
	Br     []int    `json:"br"`
	HB     [][]struct {
		Fork bool `json:"fork"`
		Seq  int  `json:"seq"`
		Min  int  `json:"min"`
	} `json:"hb"`
	LA      [][]int `json:"la"`
	LastSeq []int   `json:"lastSeq"`
	BrCr    []int   `json:"brCr"`
}

type vecMismatch struct {
	Kind  string      `json:"kind"`
	State *VecState   `json:"state"`
	At    interface{} `json:"at"`
	Want  interface{} `json:"want"`
	Got   interface{} `json:"got"`
}

// lateForkMark reports (from the specification's own vectors) whether some event merges, in the order self-parent then
// other parents, a parent that holds two non-empty plain branches of a validator before a parent that holds its fork mark.
func lateForkMark(st *VecState) bool {
	for _, me := range st.Events {
		var order []int
		if me.SP != 0 {
			order = append(order, me.SP)
		}
		order = append(order, me.Ps...)
		for v := 1; v <= len(st.W); v++ {
			plainSeen := false
			for _, p := range order {
				hb := st.HB[p-1]
				plain, fork := 0, false
				for k := 0; k < len(hb) && k < len(st.BrCr); k++ {
					if st.BrCr[k] != v {
						continue
					}
					if hb[k].Fork {
						fork = true
					} else if hb[k].Seq != 0 {
						plain++
					}
				}
				if fork && plainSeen {
					return true
				}
				if !fork && plain >= 2 {
					plainSeen = true
				}
			}
		}
	}
	return false
}

// CmdVecReplay: vh vecreplay <states.ndjson>
// Every complete DAG explored by TLC is indexed by a real vecfc.Index in the model's arrival order; the
// observable answers (ForklessCause for all pairs, merged highest-before for all events/validators, also
// through the dagidx adapter) are compared with the specification's; the internal vectors (branch ids,
// HighestBefore, LowestAfter, BranchesInfo) are compared too and reported separately ("internal").
func CmdVecReplay(args []string) int {
	if len(args) < 1 {
		fmt.Fprintln(os.Stderr, "usage: vh vecreplay <states.ndjson>")
		return 2
	}
	var keep *os.File
	if len(args) >= 3 && args[0] == "-keep" {
		// offline corpus search: states in which a fork mark reaches an event after a parent that holds two plain branches
		f, err := os.Create(args[1])
		if err != nil {
			fmt.Fprintln(os.Stderr, err)
			return 2
		}
		keep = f
		defer keep.Close()
		args = args[2:]
	}
	in, err := os.Open(args[0])
	if err != nil {
		fmt.Fprintln(os.Stderr, err)
		return 2
	}
	defer in.Close()
	sc := bufio.NewScanner(in)
	sc.Buffer(make([]byte, 1<<20), 1<<26)
	stats := map[string]int{}
	sigs := map[string]int{}
	var mism []vecMismatch
	add := func(m vecMismatch) {
		sigs[m.Kind]++
		if len(mism) < 10 && sigs[m.Kind] <= 2 {
			mism = append(mism, m)
		}
	}
	var sample *VecState
	var shared *vecfc.Index
	for sc.Scan() {
		if len(sc.Bytes()) == 0 {
			continue
		}
		st := &VecState{}
		if err := json.Unmarshal(sc.Bytes(), st); err != nil {
			fmt.Fprintln(os.Stderr, "bad state:", err)
			return 2
		}
		stats["states"]++
		if lateForkMark(st) {
			stats["fork_mark_after_a_parent_with_two_plain_branches"]++
			if keep != nil {
				keep.Write(append(append([]byte{}, sc.Bytes()...), '\n'))
			}
		}
		b := pos.NewBuilder()
		for i, w := range st.W {
			b.Set(idx.ValidatorID(i+1), pos.Weight(w))
		}
		vals := b.Build()
		store := map[hash.Event]dag.Event{}
		// every other DAG is indexed by ONE long-lived index object that is Reset() to the new validator set and a new
		// database (the event ids repeat from DAG to DAG, the weights and shapes differ): nothing may survive a Reset
		var ix *vecfc.Index
		if stats["states"]%2 == 0 {
			if shared == nil {
				shared = vecfc.NewIndex(crit, vecfc.DefaultConfig(cachescale.Identity))
			}
			ix = shared
			stats["states_on_reused_index"]++
		} else {
			ix = vecfc.NewIndex(crit, vecfc.LiteConfig())
		}
		ix.Reset(vals, memorydb.New(), func(h hash.Event) dag.Event { return store[h] })
		ad := &adapters.VectorToDagIndexer{Index: ix}
		evs := make([]*tdag.TestEvent, len(st.Events))
		failed := false
		for i, me := range st.Events {
			e := &tdag.TestEvent{}
			e.SetEpoch(1)
			e.SetCreator(idx.ValidatorID(me.Cr))
			e.SetSeq(idx.Event(me.Sq))
			var ps hash.Events
			lam := idx.Lamport(0)
			if me.SP != 0 {
				ps = append(ps, evs[me.SP-1].ID())
				lam = evs[me.SP-1].Lamport()
			}
			for _, p := range me.Ps {
				ps = append(ps, evs[p-1].ID())
				if evs[p-1].Lamport() > lam {
					lam = evs[p-1].Lamport()
				}
			}
			e.SetParents(ps)
			e.SetLamport(lam + 1)
			var rid [24]byte
			rid[0] = byte(i + 1)
			rid[1] = 0xAB
			e.SetID(rid)
			evs[i] = e
			store[e.ID()] = e
			err, critical := guarded(func() error { return ix.Add(e) })
			if err != nil || critical {
				add(vecMismatch{Kind: "add-failed", State: st, At: i + 1, Got: fmt.Sprint(err)})
				failed = true
				break
			}
			ix.Flush()
		}
		if failed {
			continue
		}
		if sample == nil && len(st.BrCr) > len(st.W) {
			sample = st
		}
		if len(st.BrCr) > len(st.W) {
			stats["states_with_forks"]++
		}
		n := len(evs)
		for a := 0; a < n; a++ {
			for bb := 0; bb < n; bb++ {
				got := ix.ForklessCause(evs[a].ID(), evs[bb].ID())
				stats["fc_answers"]++
				if got {
					stats["fc_true"]++
				}
				if got != st.FC[a][bb] {
					add(vecMismatch{Kind: "forkless-cause", State: st, At: []int{a + 1, bb + 1}, Want: st.FC[a][bb], Got: got})
				}
			}
			m := ix.GetMergedHighestBefore(evs[a].ID())
			ma := ad.GetMergedHighestBefore(evs[a].ID())
			for v := range st.W {
				s := m.Get(idx.Validator(v))
				got := int(s.Seq)
				if s.IsForkDetected() {
					got = -1
					stats["merged_fork_entries"]++
				}
				sa := ma.Get(idx.Validator(v))
				gota := int(sa.Seq())
				if sa.IsForkDetected() {
					gota = -1
				}
				stats["merged_answers"]++
				if got != st.Merged[a][v] {
					add(vecMismatch{Kind: "merged-clock", State: st, At: []int{a + 1, v + 1}, Want: st.Merged[a][v], Got: got})
				}
				if gota != st.Merged[a][v] {
					add(vecMismatch{Kind: "merged-clock-adapter", State: st, At: []int{a + 1, v + 1}, Want: st.Merged[a][v], Got: gota})
				}
			}
			// internal vectors (algorithm conformance; not a property verdict)
			if int(ix.Engine.GetEventBranchID(evs[a].ID()))+1 != st.Br[a] {
				add(vecMismatch{Kind: "internal-branch", State: st, At: a + 1, Want: st.Br[a], Got: int(ix.Engine.GetEventBranchID(evs[a].ID())) + 1})
			}
			hb := ix.GetHighestBefore(evs[a].ID())
			la := ix.GetLowestAfter(evs[a].ID())
			for k := 0; k < len(st.BrCr); k++ {
				var w struct {
					Fork     bool
					Seq, Min int
				}
				if k < len(st.HB[a]) {
					w.Fork, w.Seq, w.Min = st.HB[a][k].Fork, st.HB[a][k].Seq, st.HB[a][k].Min
				}
				g := hb.Get(idx.Validator(k))
				if g.IsForkDetected() != w.Fork || (!w.Fork && (int(g.Seq) != w.Seq || int(g.MinSeq) != w.Min)) {
					add(vecMismatch{Kind: "internal-highest-before", State: st, At: []int{a + 1, k + 1}, Want: w, Got: fmt.Sprint(g)})
				}
				wl := 0
				if k < len(st.LA[a]) {
					wl = st.LA[a][k]
				}
				if int(la.Get(idx.Validator(k))) != wl {
					add(vecMismatch{Kind: "internal-lowest-after", State: st, At: []int{a + 1, k + 1}, Want: wl, Got: int(la.Get(idx.Validator(k)))})
				}
			}
		}
		bi := ix.Engine.BranchesInfo()
		if len(bi.BranchIDCreatorIdxs) != len(st.BrCr) {
			add(vecMismatch{Kind: "internal-branches", State: st, Want: st.BrCr, Got: fmt.Sprint(bi.BranchIDCreatorIdxs)})
		} else {
			for k := range st.BrCr {
				if int(bi.BranchIDCreatorIdxs[k])+1 != st.BrCr[k] || int(bi.BranchIDLastSeq[k]) != st.LastSeq[k] {
					add(vecMismatch{Kind: "internal-branches", State: st, At: k + 1, Want: []int{st.BrCr[k], st.LastSeq[k]}, Got: []int{int(bi.BranchIDCreatorIdxs[k]) + 1, int(bi.BranchIDLastSeq[k])}})
				}
			}
		}
	}
	json.NewEncoder(os.Stdout).Encode(map[string]interface{}{"stats": stats, "sigs": sigs, "mismatches": mism, "sample": sample})
	return 0
}
