package lach

import (
	"math/rand"
	"sort"

	"github.com/Fantom-foundation/lachesis-base/hash"
	"github.com/Fantom-foundation/lachesis-base/inter/dag"
	"github.com/Fantom-foundation/lachesis-base/inter/dag/tdag"
	"github.com/Fantom-foundation/lachesis-base/inter/idx"
	"github.com/Fantom-foundation/lachesis-base/inter/pos"
)

// Ev is one generated event with its scenario-wide integer id (creation order).
type Ev struct {
	ID    int
	Cr    idx.ValidatorID
	Sq    int
	SP    int   // 0 = none
	Ps    []int // parents, self-parent first
	Epoch idx.Epoch
	Frame idx.Frame
	MaxFr idx.Frame // the frame Build assigned (highest allowed)
	E     *tdag.TestEvent
}

type ValW struct {
	ID idx.ValidatorID
	W  pos.Weight
}

type EpochPlan struct {
	Epoch     idx.Epoch
	Vals      []ValW // insertion order (not canonical)
	Events    []*Ev  // creation order (parents first)
	SealFrame idx.Frame
	Sealed    bool
	Byz       bool // forkers hold >= 1/3 of the weight
	Crit      bool // the generator instance stopped on a critical error
	Cheaters  map[idx.ValidatorID]bool
	seal      *sealInfo
}

type Scenario struct {
	Epochs []*EpochPlan
	ByID   map[int]*Ev
	ByHash map[hash.Event]*Ev
	Input  EvStore
	next   int
}

// ScriptEv is one event of a hand-written DAG (offline corpus construction): Cr is the creator's position in the canonical
// validator order (0 = first), SP and Ps name earlier events.
type ScriptEv struct {
	Name string   `json:"name"`
	Cr   int      `json:"cr"`
	SP   string   `json:"sp"`
	Ps   []string `json:"ps"`
}

type GenCfg struct {
	Script        []ScriptEv // when set, creators and parents come from the script instead of the random choices
	Weights       []int      // weights of the first epoch (len = number of validators)
	Cheaters      int        // number of forking validators (the lightest ones unless ByzHeavy)
	ByzHeavy      bool       // cheaters chosen among the heaviest (may exceed 1/3)
	Epochs        int        // number of epochs
	EpochEvents   int        // event budget per epoch
	SealFrames    []int      // frame at which epoch i seals (0 = when the budget is exhausted -> last epoch only)
	MaxParents    int        // max number of parents incl. self-parent
	ForkProb      float64    // probability that a cheater's event forks
	LazyFrame     float64    // probability that an event claims a lower (still allowed) frame
	Lag           float64    // probability that a validator is "slow" (10x less active)
	Partition     bool       // split validators into two groups for the middle third of each epoch
	MutateVals    bool       // change the validator set at each seal
	OldParent     float64    // probability that an other-parent is an old event instead of the latest
	BigIdx        bool
	Rounds        bool    // round-based creation: every validator creates one event per round on top of the previous round
	SealAtCascade bool    // the application seals at the first block (frame >= 2) that the generator instance decides as a second or later block of one Process call
	LateJoin      float64 // probability that a validator creates its first event only after a third to two thirds of the budget
	Stall         int     // after the first round, a minority of the validators gossips alone for this many events (no frame can advance), then everybody returns
	LagHeavy      bool    // the heaviest validator (first in canonical order) is slow
	NapProb       float64 // probability (per own event) that a validator falls asleep for a long stretch and later wakes up seeing all heads
	SiblingForks  float64 // share of forks that are siblings of the creator's latest event (same self-parent)
	ViewP         float64 // Rounds mode: probability that a creator includes another validator's previous-round event
	SleeperOld    bool    // with Sleeper: it wakes up two dozen events before the end and its first event after waking refers only to an old event
	Sleeper       bool    // the lightest validator creates one event, sleeps, and wakes up at the end of the budget
}

func buildVals(vs []ValW) *pos.Validators {
	b := pos.NewBuilder()
	for _, v := range vs {
		b.Set(v.ID, v.W)
	}
	return b.Build()
}

func (s *Scenario) mkEvent(ep idx.Epoch, cr idx.ValidatorID, sp *Ev, others []*Ev) (*Ev, *tdag.TestEvent) {
	e := &tdag.TestEvent{}
	e.SetEpoch(ep)
	e.SetCreator(cr)
	sq := 1
	lam := idx.Lamport(0)
	var ps hash.Events
	var pids []int
	spid := 0
	if sp != nil {
		sq = sp.Sq + 1
		spid = sp.ID
		ps = append(ps, sp.E.ID())
		pids = append(pids, sp.ID)
		if sp.E.Lamport() > lam {
			lam = sp.E.Lamport()
		}
	}
	for _, o := range others {
		ps = append(ps, o.E.ID())
		pids = append(pids, o.ID)
		if o.E.Lamport() > lam {
			lam = o.E.Lamport()
		}
	}
	e.SetSeq(idx.Event(sq))
	e.SetLamport(lam + 1)
	e.SetParents(ps)
	return &Ev{Cr: cr, Sq: sq, SP: spid, Ps: pids, Epoch: ep, E: e}, e
}

// finalize gives the event its scenario id and a unique hash.
func (s *Scenario) finalize(ev *Ev) {
	s.next++
	ev.ID = s.next
	var rid [24]byte
	rid[0] = byte(ev.ID >> 16)
	rid[1] = byte(ev.ID >> 8)
	rid[2] = byte(ev.ID)
	rid[3] = 0xEE
	ev.E.SetID(rid)
	ev.E.Name = ""
	s.ByID[ev.ID] = ev
	s.ByHash[ev.E.ID()] = ev
	s.Input[ev.E.ID()] = ev.E
}

// Clone returns a copy of the event claiming another frame (a different event with the same position).
func (s *Scenario) CloneWithFrame(ev *Ev, fr idx.Frame, salt int) *tdag.TestEvent {
	c := &tdag.TestEvent{}
	c.SetEpoch(ev.E.Epoch())
	c.SetCreator(ev.E.Creator())
	c.SetSeq(ev.E.Seq())
	c.SetLamport(ev.E.Lamport())
	c.SetParents(ev.E.Parents())
	c.SetFrame(fr)
	var rid [24]byte
	rid[0] = byte(ev.ID >> 16)
	rid[1] = byte(ev.ID >> 8)
	rid[2] = byte(ev.ID)
	rid[3] = 0xC0
	rid[4] = byte(salt)
	c.SetID(rid)
	return c
}

func mutateVals(r *rand.Rand, vs []ValW) []ValW {
	out := append([]ValW{}, vs...)
	switch r.Intn(4) {
	case 0: // reweight one
		i := r.Intn(len(out))
		out[i].W = pos.Weight(1 + r.Intn(5))
	case 1: // drop one (keep >= 2)
		if len(out) > 2 {
			i := r.Intn(len(out))
			out = append(out[:i], out[i+1:]...)
		}
	case 2: // add one
		used := map[idx.ValidatorID]bool{}
		for _, v := range out {
			used[v.ID] = true
		}
		for {
			id := idx.ValidatorID(1 + r.Intn(60))
			if !used[id] {
				out = append(out, ValW{id, pos.Weight(1 + r.Intn(4))})
				break
			}
		}
	case 3: // unchanged
	}
	r.Shuffle(len(out), func(i, j int) { out[i], out[j] = out[j], out[i] })
	return out
}

// Generate creates a multi-epoch scenario; the frames are assigned by Build on a generator instance
// which processes the events in creation order (its own calls are recorded by the caller through rec).
func Generate(r *rand.Rand, cfg GenCfg, rec *Recorder) *Scenario {
	s := &Scenario{ByID: map[int]*Ev{}, ByHash: map[hash.Event]*Ev{}, Input: EvStore{}}
	// validators with distinct random ids
	var vals []ValW
	used := map[idx.ValidatorID]bool{}
	for _, w := range cfg.Weights {
		for {
			id := idx.ValidatorID(1 + r.Intn(60))
			if !used[id] {
				used[id] = true
				vals = append(vals, ValW{id, pos.Weight(w)})
				break
			}
		}
	}
	var gen *Inst
	for epi := 0; epi < cfg.Epochs; epi++ {
		ep := &EpochPlan{Epoch: idx.Epoch(epi + 1), Vals: vals, Cheaters: map[idx.ValidatorID]bool{}}
		if epi < len(cfg.SealFrames) {
			ep.SealFrame = idx.Frame(cfg.SealFrames[epi])
		}
		s.Epochs = append(s.Epochs, ep)
		// cheaters: lightest (or heaviest) validators
		sorted := append([]ValW{}, vals...)
		sort.SliceStable(sorted, func(i, j int) bool {
			if cfg.ByzHeavy {
				return sorted[i].W > sorted[j].W
			}
			return sorted[i].W < sorted[j].W
		})
		total, cw := 0, 0
		for _, v := range vals {
			total += int(v.W)
		}
		for i := 0; i < cfg.Cheaters && i < len(sorted); i++ {
			if !cfg.ByzHeavy && 3*(cw+int(sorted[i].W)) >= total {
				break // keep forkers strictly below one third
			}
			ep.Cheaters[sorted[i].ID] = true
			cw += int(sorted[i].W)
		}
		ep.Byz = 3*cw >= total
		pv := buildVals(vals)
		var nextVals []ValW
		curJump, curN := 0, 0 // frames the event being processed by the generator instance passes at once; its index
		nbBeforeCall := -1    // number of blocks of the generator instance before its current Process call (-1: not generating)
		seal := func(e idx.Epoch, f idx.Frame) *pos.Validators {
			if e == ep.Epoch && cfg.SealAtCascade && ep.SealFrame == 0 && nbBeforeCall >= 0 && gen != nil &&
				len(gen.Blocks)-nbBeforeCall >= 1 && f >= 2 && epi < cfg.Epochs-1 && (curJump >= 2 || curN > 2*cfg.EpochEvents/3) {
				ep.SealFrame = f // from now on the rule is "seal at frame f" for every instance
			}
			if e == ep.Epoch && ep.SealFrame != 0 && f == ep.SealFrame {
				return buildVals(nextVals)
			}
			return nil
		}
		if cfg.MutateVals {
			nextVals = mutateVals(r, vals)
		} else {
			nextVals = vals
		}
		if gen == nil {
			gen = NewInst(ep.Epoch, pv, s.Input, cfg.BigIdx)
			if rec != nil {
				rec.Reset(ep.Epoch, vals, ep.Byz)
			}
		}
		gen.SealAt = seal
		ep.sealFn(seal, nextVals)
		own := map[idx.ValidatorID][]*Ev{}
		slow := map[idx.ValidatorID]bool{}
		group := map[idx.ValidatorID]int{}
		for _, v := range vals {
			if r.Float64() < cfg.Lag {
				slow[v.ID] = true
			}
			group[v.ID] = r.Intn(2)
		}
		asleepUntil := map[idx.ValidatorID]int{}
		joinAt := map[idx.ValidatorID]int{}
		if cfg.LateJoin > 0 {
			late, lw := 0, 0
			for _, v := range vals {
				// keep a quorum of early validators, otherwise nothing advances before the joiners arrive
				if r.Float64() < cfg.LateJoin && 3*(lw+int(v.W)) < total {
					joinAt[v.ID] = cfg.EpochEvents/3 + r.Intn(cfg.EpochEvents/3+1)
					late++
					lw += int(v.W)
				}
			}
		}
		if cfg.Stall > 0 {
			// put validators to sleep, heaviest first, until the awake ones hold less than a quorum
			byW := append([]ValW{}, vals...)
			sort.SliceStable(byW, func(i, j int) bool { return byW[i].W > byW[j].W })
			awake := total
			for _, v := range byW {
				if 3*awake <= 2*total {
					break
				}
				asleepUntil[v.ID] = -cfg.Stall // marker: falls asleep after its first event
				awake -= int(v.W)
			}
		}
		if cfg.LagHeavy {
			hv := vals[0]
			for _, v := range vals {
				if v.W > hv.W || (v.W == hv.W && v.ID < hv.ID) {
					hv = v
				}
			}
			slow[hv.ID] = true
		}
		budget := cfg.EpochEvents
		slowFactor := 3 + r.Intn(4)
		var roundQ []ValW
		justWoke := map[idx.ValidatorID]bool{}
		prevRound := map[idx.ValidatorID]*Ev{}
		hard := budget * 4
		named := map[string]*Ev{}
		canon := append([]ValW{}, vals...)
		sort.SliceStable(canon, func(i, j int) bool {
			if canon[i].W != canon[j].W {
				return canon[i].W > canon[j].W
			}
			return canon[i].ID < canon[j].ID
		})
		for n := 0; n < hard; n++ {
			if len(cfg.Script) > 0 && n >= len(cfg.Script) {
				break
			}
			if ep.SealFrame == 0 && n >= budget && !(cfg.SealAtCascade && epi < cfg.Epochs-1) {
				break
			}
			if gen.Store.GetEpoch() != ep.Epoch {
				break
			}
			// creator
			var c ValW
			if cfg.Rounds {
				if len(roundQ) == 0 {
					for _, pi := range r.Perm(len(vals)) {
						if !slow[vals[pi].ID] || r.Intn(3) == 0 {
							roundQ = append(roundQ, vals[pi])
						}
					}
					prevRound = map[idx.ValidatorID]*Ev{}
					for id, l := range own {
						prevRound[id] = l[len(l)-1]
					}
				}
			}
			for attempts := 0; ; attempts++ {
				if attempts > 300 {
					// everybody is asleep, late or slow at once: let the last candidate create an event anyway
					c = vals[r.Intn(len(vals))]
					delete(asleepUntil, c.ID)
					delete(joinAt, c.ID)
					break
				}
				if cfg.Rounds && len(roundQ) > 0 {
					c = roundQ[0]
					roundQ = roundQ[1:]
					break
				}
				c = vals[r.Intn(len(vals))]
				if slow[c.ID] && r.Intn(slowFactor) != 0 {
					continue
				}
				if cfg.Sleeper && c.ID == sorted[0].ID && len(own[c.ID]) > 0 && (n < budget-3 && !cfg.SleeperOld || n < budget-24) {
					continue
				}
				if at, ok := joinAt[c.ID]; ok && n < at {
					continue
				}
				if until, ok := asleepUntil[c.ID]; ok {
					if until < 0 {
						if len(own[c.ID]) == 0 {
							break // first event
						}
						asleepUntil[c.ID] = n + (-until)
						until = asleepUntil[c.ID]
					}
					if n < until {
						awake := 0
						for _, v := range vals {
							if u, ok := asleepUntil[v.ID]; !ok || n >= u {
								awake++
							}
						}
						if awake > 0 {
							continue
						}
					}
					delete(asleepUntil, c.ID)
					justWoke[c.ID] = true
				}
				break
			}
			if cfg.Sleeper && n == 1 {
				c = sorted[0]
			}
			mine := own[c.ID]
			var sp *Ev
			if len(mine) > 0 {
				sp = mine[len(mine)-1]
				if ep.Cheaters[c.ID] && r.Float64() < cfg.ForkProb {
					k := r.Intn(len(mine) + 1)
					if r.Float64() < cfg.SiblingForks {
						// a sibling of the latest event: same self-parent
						if sp.SP == 0 {
							sp = nil
						} else {
							sp = s.ByID[sp.SP]
						}
					} else if k == len(mine) {
						sp = nil // a second first event
					} else {
						sp = mine[k]
					}
				}
			}
			// other parents
			partitioned := cfg.Partition && n > budget/3 && n < 2*budget/3
			var others []*Ev
			np := 0
			if cfg.MaxParents > 1 {
				np = cfg.MaxParents - 1
				if r.Intn(4) == 0 && !cfg.Sleeper {
					np = r.Intn(cfg.MaxParents)
				}
				if ep.Cheaters[c.ID] && r.Intn(3) == 0 {
					np = 0 // cheaters often extend their branches with self-parent-only events
				}
				if len(mine) == 1 && mine[0].SP == 0 && len(mine[0].Ps) > 0 && r.Intn(2) == 0 {
					np = 0 // a late joiner's second event often has only its first event as parent
				}
				if justWoke[c.ID] {
					np = len(vals) - 1 // a validator that wakes up references every head it can see
					delete(justWoke, c.ID)
				}
			}
			perm := r.Perm(len(vals))
			for _, pi := range perm {
				if len(others) >= np {
					break
				}
				o := vals[pi]
				if o.ID == c.ID || len(own[o.ID]) == 0 {
					continue
				}
				if partitioned && group[o.ID] != group[c.ID] {
					continue
				}
				if cfg.Rounds && cfg.ViewP > 0 {
					if r.Float64() >= cfg.ViewP {
						continue
					}
					np = len(vals)
				}
				cand := own[o.ID][len(own[o.ID])-1]
				if cfg.Rounds && prevRound[o.ID] != nil && r.Intn(5) != 0 {
					cand = prevRound[o.ID]
				}
				if r.Float64() < cfg.OldParent {
					cand = own[o.ID][r.Intn(len(own[o.ID]))]
				}
				if cfg.Sleeper && cfg.SleeperOld && c.ID == sorted[0].ID && len(mine) == 1 {
					cand = own[o.ID][len(own[o.ID])/8]
					np = 1
				}
				others = append(others, cand)
			}
			if len(cfg.Script) > 0 {
				se := cfg.Script[n]
				c = canon[se.Cr]
				sp = named[se.SP]
				others = nil
				for _, pn := range se.Ps {
					others = append(others, named[pn])
				}
			}
			ev, te := s.mkEvent(ep.Epoch, c.ID, sp, others)
			if len(cfg.Script) > 0 {
				named[cfg.Script[n].Name] = ev
			}
			// frame from Build on the generator instance
			err, critical := guarded(func() error { return gen.L.Build(te) })
			if critical || err != nil {
				if rec != nil && err != nil {
					rec.Crit(err.Error())
				}
				ep.Crit = true
				break
			}
			ev.Frame = te.Frame()
			ev.MaxFr = te.Frame()
			if rec != nil {
				rec.BuildLine(s, ev, te.Frame())
			}
			if sp != nil && r.Float64() < cfg.LazyFrame && te.Frame() > sp.Frame {
				// a lower frame is still allowed as long as it is not below the self-parent's
				ev.Frame = sp.Frame + idx.Frame(r.Intn(int(te.Frame()-sp.Frame)))
				te.SetFrame(ev.Frame)
			}
			s.finalize(ev)
			nb := len(gen.Blocks)
			nbBeforeCall = nb
			curN = n
			curJump = 0
			if sp != nil {
				curJump = int(ev.Frame) - int(sp.Frame)
			}
			err, critical = guarded(func() error { return gen.L.Process(te) })
			nbBeforeCall = -1
			if critical {
				// a critical error (legitimate only when more than 1/3 are Byzantine): end of this run
				if rec != nil {
					rec.Crit(err.Error())
				}
				ep.Crit = true
				if KeepCritEvent {
					// search mode: keep the event at which the instance gave up, so that the DAG can be replayed elsewhere
					ep.Events = append(ep.Events, ev)
					break
				}
				delete(s.Input, te.ID())
				delete(s.ByID, ev.ID)
				break
			}
			if rec != nil {
				rec.ProcessLine(s, gen, ev, err, gen.Blocks[nb:])
			}
			if err != nil {
				// built-then-processed event rejected: stays in the trace for the specification to judge
				delete(s.Input, te.ID())
				continue
			}
			own[c.ID] = append(own[c.ID], ev)
			ep.Events = append(ep.Events, ev)
			if cfg.NapProb > 0 && r.Float64() < cfg.NapProb {
				asleepUntil[c.ID] = n + len(vals)*(2+r.Intn(8))
			}
		}
		if gen.Store.GetEpoch() != ep.Epoch {
			ep.Sealed = true
			vals = nextVals
		} else {
			if rec != nil {
				rec.End()
			}
			break
		}
	}
	return s
}

// KeepCritEvent is set by the offline search tool only.
var KeepCritEvent bool

type sealInfo struct {
	fn   SealFn
	next []ValW
}

func (ep *EpochPlan) sealFn(fn SealFn, next []ValW) { ep.seal = &sealInfo{fn, next} }

// SealFnFor returns the application's sealing rule of the whole scenario.
func (s *Scenario) SealFnFor() SealFn {
	return func(e idx.Epoch, f idx.Frame) *pos.Validators {
		for _, ep := range s.Epochs {
			if ep.Epoch == e {
				return ep.seal.fn(e, f)
			}
		}
		return nil
	}
}

// NextVals returns the validator list (insertion order) the given epoch seals into.
func (s *Scenario) NextVals(e idx.Epoch) []ValW {
	for _, ep := range s.Epochs {
		if ep.Epoch == e {
			return ep.seal.next
		}
	}
	return nil
}

var _ = dag.Events{}
