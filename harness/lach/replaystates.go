package lach

import (
	"bufio"
	"encoding/json"
	"flag"
	"fmt"
	"math/rand"
	"os"
	"sort"

	"github.com/Fantom-foundation/lachesis-base/hash"
	"github.com/Fantom-foundation/lachesis-base/inter/idx"
	"github.com/Fantom-foundation/lachesis-base/inter/pos"
)

// ModelState is one state of specs/lachesis/Lachesis.tla as emitted by TLC.
type ModelState struct {
	W      []int `json:"w"`
	Events []struct {
		ID string   `json:"id"`
		Cr int      `json:"cr"`
		Sq int      `json:"sq"`
		SP string   `json:"sp"`
		Ps []string `json:"ps"`
		Fr int      `json:"fr"`
	} `json:"events"`
	Blocks []struct {
		Atr string   `json:"atr"`
		Ch  []int    `json:"ch"`
		Evs []string `json:"evs"`
	} `json:"blocks"`
	SealFrame int `json:"seal_frame,omitempty"` // the application seals the epoch at this frame (same validator set)
	Tag string `json:"tag,omitempty"` // set for DAGs found by the harness's own generator: no expected blocks, the trace specification decides
}

type stateMismatch struct {
	Kind  string      `json:"kind"`
	State *ModelState `json:"state"`
	Order string      `json:"order"`
	Want  interface{} `json:"want"`
	Got   interface{} `json:"got"`
}

// CmdReplayStates: vh lachreplay [-orders K] [-trace-every M] <states.ndjson> <trace-out.ndjson>
func CmdReplayStates(args []string, seed int64) int {
	fs := flag.NewFlagSet("lachreplay", flag.ExitOnError)
	norders := fs.Int("orders", 3, "parents-first orders per DAG")
	every := fs.Int("trace-every", 10, "record the trace of every M-th DAG for validation against the trace specification")
	restarts := fs.Bool("restarts", false, "orders 1 and 2 restart the instance after every event / every third event")
	lazy := fs.Bool("lazy", false, "the model assigned arbitrary allowed frames: Build is not compared")
	fs.Parse(args)
	if fs.NArg() < 2 {
		fmt.Fprintln(os.Stderr, "usage: vh lachreplay <states.ndjson> <trace-out.ndjson>")
		return 2
	}
	in, err := os.Open(fs.Arg(0))
	if err != nil {
		fmt.Fprintln(os.Stderr, err)
		return 2
	}
	defer in.Close()
	tf, err := os.Create(fs.Arg(1))
	if err != nil {
		fmt.Fprintln(os.Stderr, err)
		return 2
	}
	defer tf.Close()
	rec := NewRecorder(tf)
	defer rec.Flush()
	devnull, _ := os.Create(os.DevNull)
	defer devnull.Close()
	r := rand.New(rand.NewSource(seed))
	sc := bufio.NewScanner(in)
	sc.Buffer(make([]byte, 1<<20), 1<<26)
	stats := map[string]int{}
	var mism []stateMismatch
	sigs := map[string]int{}
	add := func(m stateMismatch) {
		sigs[m.Kind]++
		if len(mism) < 10 && sigs[m.Kind] <= 3 {
			mism = append(mism, m)
		}
	}
	var sample []*ModelState
	n := 0
	for sc.Scan() {
		if len(sc.Bytes()) == 0 {
			continue
		}
		st := &ModelState{}
		if err := json.Unmarshal(sc.Bytes(), st); err != nil {
			fmt.Fprintln(os.Stderr, "bad state:", err)
			return 2
		}
		n++
		if len(st.Events) == 0 {
			continue
		}
		if len(sample) < 2 && len(st.Blocks) > 0 {
			sample = append(sample, st)
		}
		// scenario
		s := &Scenario{ByID: map[int]*Ev{}, Input: EvStore{}}
		s.ByHash = map[hash.Event]*Ev{}
		var vals []ValW
		for i, w := range st.W {
			vals = append(vals, ValW{idx.ValidatorID(i + 1), pos.Weight(w)})
		}
		ep := &EpochPlan{Epoch: 1, Vals: vals, Cheaters: map[idx.ValidatorID]bool{}}
		sealFrame := idx.Frame(st.SealFrame)
		ep.SealFrame = sealFrame
		ep.sealFn(func(e idx.Epoch, f idx.Frame) *pos.Validators {
			if sealFrame != 0 && e == 1 && f == sealFrame {
				return buildVals(vals)
			}
			return nil
		}, vals)
		s.Epochs = []*EpochPlan{ep}
		// topological creation order: parents first (by seq sum is not enough): iterate
		byKey := map[string]*Ev{}
		remaining := map[string]bool{}
		for _, e := range st.Events {
			remaining[e.ID] = true
		}
		keys := make([]string, 0, len(st.Events))
		for _, e := range st.Events {
			keys = append(keys, e.ID)
		}
		sort.Strings(keys)
		evOf := map[string]int{}
		for i, e := range st.Events {
			evOf[e.ID] = i
		}
		for len(remaining) > 0 {
			progressed := false
			for _, k := range keys {
				if !remaining[k] {
					continue
				}
				me := st.Events[evOf[k]]
				ready := me.SP == "" || byKey[me.SP] != nil
				for _, p := range me.Ps {
					if byKey[p] == nil {
						ready = false
					}
				}
				if !ready {
					continue
				}
				var sp *Ev
				if me.SP != "" {
					sp = byKey[me.SP]
				}
				var others []*Ev
				for _, p := range me.Ps {
					others = append(others, byKey[p])
				}
				ev, te := s.mkEvent(1, idx.ValidatorID(me.Cr), sp, others)
				if ev.Sq != me.Sq {
					fmt.Fprintln(os.Stderr, "model state has a sequence gap", k)
					return 2
				}
				ev.Frame = idx.Frame(me.Fr)
				ev.MaxFr = ev.Frame
				te.SetFrame(ev.Frame)
				s.finalize(ev)
				ep.Events = append(ep.Events, ev)
				byKey[k] = ev
				delete(remaining, k)
				progressed = true
			}
			if !progressed {
				fmt.Fprintln(os.Stderr, "model state is not parents-closed")
				return 2
			}
		}
		for _, e := range ep.Events {
			seen := map[int]bool{}
			for _, o := range ep.Events {
				if o.Cr == e.Cr && o.Sq == e.Sq && o.ID != e.ID && !seen[o.ID] {
					ep.Cheaters[e.Cr] = true
				}
			}
		}
		if len(ep.Cheaters) > 0 {
			stats["dags_with_forks"]++
		}
		if len(st.Blocks) > 0 {
			stats["dags_with_blocks"]++
		}
		stats["blocks_expected"] += len(st.Blocks)
		// expected blocks in implementation terms
		orderList := []string{}
		for k := 0; k < *norders; k++ {
			orderList = append(orderList, []string{"gen", "topo", "late", "lastval"}[k%4])
		}
		if st.SealFrame != 0 {
			// the situation this DAG was kept for arises when one particular childless event arrives last: try each of them
			hasChild := map[int]bool{}
			for _, e := range ep.Events {
				for _, p := range e.Ps {
					hasChild[p] = true
				}
			}
			for _, e := range ep.Events {
				if !hasChild[e.ID] {
					orderList = append(orderList, fmt.Sprintf("last:%d", e.ID))
				}
			}
		}
		for k, order := range orderList {
			out := NewRecorder(devnull)
			if n%*every == 0 {
				out = rec
			}
			po := PlayOpts{Order: order, BuildEach: !*lazy && k == 0}
			if *restarts && k == 1 {
				po.RestartEvery = 1
			}
			if *restarts && k == 2 {
				po.RestartEvery = 3
			}
			blocks, critical := Play(r, s, po, out)
			for key, v := range out.Stats {
				if out != rec {
					stats[key] += v
				}
			}
			stats["plays"]++
			if critical {
				add(stateMismatch{Kind: "critical-error", State: st, Order: order})
				continue
			}
			if st.Tag != "" {
				stats["dags_without_model_blocks"]++
				continue
			}
			if len(blocks) != len(st.Blocks) {
				add(stateMismatch{Kind: "block-count", State: st, Order: order, Want: len(st.Blocks), Got: len(blocks)})
				continue
			}
			for i, b := range blocks {
				wb := st.Blocks[i]
				if byKey[wb.Atr] == nil || b.Atropos != byKey[wb.Atr].E.ID() {
					add(stateMismatch{Kind: "atropos", State: st, Order: order, Want: wb.Atr, Got: s.idOf(b.Atropos)})
					break
				}
				ch := []int{}
				for _, c := range b.Cheaters {
					ch = append(ch, int(c))
				}
				if fmt.Sprint(ch) != fmt.Sprint(append([]int{}, wb.Ch...)) {
					add(stateMismatch{Kind: "cheaters", State: st, Order: order, Want: wb.Ch, Got: ch})
					break
				}
				want := map[int]bool{}
				for _, x := range wb.Evs {
					want[byKey[x].ID] = true
				}
				ok := len(want) == len(b.Applied)
				for _, h := range b.Applied {
					if !want[s.idOf(h)] {
						ok = false
					}
				}
				if !ok {
					add(stateMismatch{Kind: "delivered-events", State: st, Order: order, Want: wb.Evs, Got: len(b.Applied)})
					break
				}
			}
		}
	}
	for key, v := range rec.Stats {
		stats["traced_"+key] = v
	}
	stats["states"] = n
	stats["trace_lines"] = rec.Lines
	json.NewEncoder(os.Stdout).Encode(map[string]interface{}{"stats": stats, "mismatches": mism, "sigs": sigs, "sample": sample})
	return 0
}
