package lach

import (
	"encoding/json"
	"flag"
	"fmt"
	"github.com/Fantom-foundation/lachesis-base/inter/idx"
	"io/ioutil"
	"math/rand"
	"os"
	"sort"
)

// CmdSearch: vh lachsearch -profile xlag -want atropos_of_two_frames -n 500 -keep 20 -out corpus.ndjson
// Offline helper (not used by any check): generates DAGs with the harness's own generator and keeps those in which
// a structural situation occurred while the generator instance processed them (counted by the recorder), in the
// same JSON shape as the states emitted by Lachesis.tla but without expected blocks: when such a DAG is replayed,
// the verdict comes from the trace specification alone.
func CmdSearch(args []string, seed int64) int {
	fs := flag.NewFlagSet("lachsearch", flag.ExitOnError)
	prof := fs.String("profile", "xlag", "generator profile")
	want := fs.String("want", "atropos_of_two_frames", "recorder statistic that must be non-zero")
	n := fs.Int("n", 300, "DAGs to try")
	keep := fs.Int("keep", 20, "DAGs to keep (smallest first)")
	maxEv := fs.Int("maxev", 60, "event budget per DAG")
	sealCascade := fs.Bool("sealcascade", false, "two epochs, the application seals inside a cascade; the first epoch is dumped with its seal frame")
	allowCrit := fs.Bool("allowcrit", false, "keep DAGs at which the generator instance reported a critical error (search against a modified library)")
	script := fs.String("script", "", "JSON file {\"w\": [...], \"events\": [{name, cr, sp, ps}]}: a hand-written DAG instead of random generation")
	out := fs.String("out", "found.ndjson", "output")
	fs.Parse(args)
	p, ok := profiles[*prof]
	if !ok {
		fmt.Fprintln(os.Stderr, "unknown profile")
		return 2
	}
	KeepCritEvent = *allowCrit
	type found struct {
		n int
		s string
	}
	var res []found
	for k := 0; k < *n; k++ {
		r := rand.New(rand.NewSource(seed*1000003 + int64(k)))
		g := p.gen(r, k)
		g.Epochs = 1
		g.SealFrames = nil
		if *script != "" {
			var sc struct {
				W      []int      `json:"w"`
				Events []ScriptEv `json:"events"`
			}
			b, err := ioutil.ReadFile(*script)
			if err == nil {
				err = json.Unmarshal(b, &sc)
			}
			if err != nil {
				fmt.Fprintln(os.Stderr, err)
				return 2
			}
			g = GenCfg{Weights: sc.W, Epochs: 1, EpochEvents: len(sc.Events), MaxParents: 2, Script: sc.Events}
			*maxEv = len(sc.Events)
		}
		if *sealCascade {
			g.Epochs = 2
			g.SealAtCascade = true
			g.MutateVals = false
		}
		if g.EpochEvents > *maxEv {
			g.EpochEvents = *maxEv
		}
		rec := NewRecorder(ioutil.Discard)
		sc := Generate(r, g, rec)
		if len(sc.Epochs) > 0 && lateForkMarkDag(sc.Epochs[0].Events) {
			rec.Stats["late_fork_mark"]++
			if rec.Stats["blocks_with_cheaters"] > 0 {
				rec.Stats["late_fork_mark_and_cheater_blocks"]++
			}
		}
		if rec.Stats[*want] == 0 || len(sc.Epochs) == 0 || (sc.Epochs[0].Crit && !*allowCrit) {
			continue
		}
		ep := sc.Epochs[0]
		if ep.Byz {
			continue // forkers of one third or more: the specification only judges block contents there, not a corpus candidate
		}
		// canonical order: weight desc, id asc
		vals := append([]ValW{}, ep.Vals...)
		sort.SliceStable(vals, func(i, j int) bool {
			if vals[i].W != vals[j].W {
				return vals[i].W > vals[j].W
			}
			return vals[i].ID < vals[j].ID
		})
		idx := map[uint32]int{}
		var w []int
		for i, v := range vals {
			idx[uint32(v.ID)] = i + 1
			w = append(w, int(v.W))
		}
		type ev struct {
			ID string   `json:"id"`
			Cr int      `json:"cr"`
			Sq int      `json:"sq"`
			SP string   `json:"sp"`
			Ps []string `json:"ps"`
			Fr int      `json:"fr"`
		}
		var evs []ev
		for _, e := range ep.Events {
			x := ev{ID: fmt.Sprintf("e%d", e.ID), Cr: idx[uint32(e.Cr)], Sq: e.Sq, Fr: int(e.Frame), Ps: []string{}}
			for i, pid := range e.Ps {
				if i == 0 && e.SP != 0 {
					x.SP = fmt.Sprintf("e%d", pid)
					continue
				}
				x.Ps = append(x.Ps, fmt.Sprintf("e%d", pid))
			}
			evs = append(evs, x)
		}
		rec2 := map[string]interface{}{"w": w, "events": evs, "blocks": nil, "tag": *want}
		if *sealCascade {
			if ep.SealFrame == 0 || !ep.Sealed {
				continue
			}
			rec2["seal_frame"] = int(ep.SealFrame)
		}
		b, _ := json.Marshal(rec2)
		res = append(res, found{len(evs), string(b)})
	}
	sort.SliceStable(res, func(i, j int) bool { return res[i].n < res[j].n })
	f, err := os.Create(*out)
	if err != nil {
		fmt.Fprintln(os.Stderr, err)
		return 2
	}
	defer f.Close()
	for i, x := range res {
		if i >= *keep {
			break
		}
		fmt.Fprintln(f, x.s)
	}
	fmt.Printf("{\"tried\":%d,\"found\":%d}\n", *n, len(res))
	return 0
}

// lateForkMarkDag computes, from the DAG in its generation order alone, whether some event lists a parent that sees two
// index branches of a validator as one chain (no fork visible) before a parent that sees that validator's fork.
func lateForkMarkDag(evs []*Ev) bool {
	type key struct {
		cr idx.ValidatorID
		sq int
	}
	branch := map[int]int{} // event -> branch
	tip := map[int]int{}    // branch -> last event
	first := map[idx.ValidatorID]bool{}
	anc := map[int]map[int]bool{} // event -> ancestors-or-self
	byID := map[int]*Ev{}
	nb := 0
	for _, e := range evs {
		byID[e.ID] = e
		if e.SP == 0 {
			nb++
			branch[e.ID] = nb
			first[e.Cr] = true
		} else if tip[branch[e.SP]] == e.SP {
			branch[e.ID] = branch[e.SP]
		} else {
			nb++
			branch[e.ID] = nb
		}
		tip[branch[e.ID]] = e.ID
		a := map[int]bool{e.ID: true}
		for _, p := range e.Ps {
			for x := range anc[p] {
				a[x] = true
			}
		}
		anc[e.ID] = a
		// per validator: what each parent sees
		plainSeen := map[idx.ValidatorID]bool{}
		for _, p := range e.Ps {
			seqs := map[key]int{}
			brs := map[idx.ValidatorID]map[int]bool{}
			forkOf := map[idx.ValidatorID]bool{}
			for x := range anc[p] {
				ex := byID[x]
				k := key{ex.Cr, ex.Sq}
				seqs[k]++
				if seqs[k] > 1 {
					forkOf[ex.Cr] = true
				}
				if brs[ex.Cr] == nil {
					brs[ex.Cr] = map[int]bool{}
				}
				brs[ex.Cr][branch[x]] = true
			}
			for v, f := range forkOf {
				if f && plainSeen[v] {
					return true
				}
			}
			for v, b := range brs {
				if !forkOf[v] && len(b) >= 2 {
					plainSeen[v] = true
				}
			}
		}
	}
	return false
}
