package lach

import (
	"encoding/json"
	"flag"
	"fmt"
	"math/rand"
	"os"
	"reflect"
)

type profile struct {
	gen   func(r *rand.Rand, k int) GenCfg
	plays func(r *rand.Rand, k int) []PlayOpts
}

var weightSets = [][]int{
	{1, 1, 1}, {1, 1, 1, 1}, {2, 1, 1}, {3, 1, 1, 1}, {2, 2, 1, 1, 1}, {1, 1, 1, 1, 1}, {5, 4, 3, 2, 1}, {3, 3, 2, 1, 1, 1},
	{2, 2, 2, 2}, {4, 3, 3}, {1, 1, 1, 1, 1, 1}, {7, 1, 1, 1}, {3, 2, 2, 1, 1, 1, 1}, {2, 1}, {3, 1}, {1, 1},
}

func baseGen(r *rand.Rand, k int) GenCfg {
	w := weightSets[(k+r.Intn(3))%len(weightSets)]
	if r.Intn(4) == 0 {
		n := 3 + r.Intn(5)
		w = make([]int, n)
		for i := range w {
			w[i] = 1 + r.Intn(5)
		}
	}
	n := len(w)
	g := GenCfg{Weights: w, Epochs: 1, EpochEvents: 10*n + r.Intn(8*n), MaxParents: 2 + r.Intn(n), ForkProb: 0.15,
		LazyFrame: 0.03, Lag: 0.1, Partition: r.Intn(3) == 0, OldParent: 0.15,
		NapProb: []float64{0, 0.04, 0.08}[r.Intn(3)], SiblingForks: 0.4, LateJoin: []float64{0, 0.2, 0.35}[r.Intn(3)]}
	if g.MaxParents < 2 {
		g.MaxParents = 2
	}
	if r.Intn(2) == 0 { // dense DAG: frames advance quickly
		g.MaxParents = n
		g.OldParent = 0.02
		g.Partition = false
	}
	g.LagHeavy = r.Intn(3) == 0
	if g.EpochEvents > 75 {
		g.EpochEvents = 75
	}
	if n >= 4 && r.Intn(2) == 0 {
		g.Cheaters = 1 + r.Intn(2)
	}
	return g
}

func sleepGen(r *rand.Rand) GenCfg {
	return GenCfg{Weights: []int{1, 1, 1, 1}, Epochs: 1, EpochEvents: 1050 + r.Intn(30), MaxParents: 2, Sleeper: true, SleeperOld: true}
}

func sleepPlays() []PlayOpts { return []PlayOpts{{Order: "gen", RichBuilds: 1, RichFrom: 1000}} }

func multiEpoch(r *rand.Rand, g GenCfg) GenCfg {
	g.Epochs = 2 + r.Intn(2)
	g.SealFrames = nil
	for i := 0; i < g.Epochs-1; i++ {
		g.SealFrames = append(g.SealFrames, 1+r.Intn(4))
	}
	g.MutateVals = r.Intn(3) != 0
	g.EpochEvents = g.EpochEvents * 2 / 3
	return g
}

var orders = []string{"topo", "lastval", "late"}

var profiles = map[string]profile{
	// experiment: a long stall (a minority gossips alone), then one block confirms hundreds of events
	"xstall": {
		gen: func(r *rand.Rand, k int) GenCfg {
			return GenCfg{Weights: [][]int{{1, 1, 1, 1}, {2, 2, 1, 1, 1}, {3, 2, 2, 1}}[k%3], Epochs: 1, EpochEvents: 380 + r.Intn(60), MaxParents: 4,
				Stall: 300 + r.Intn(40), OldParent: 0.02}
		},
		plays: func(r *rand.Rand, k int) []PlayOpts { return []PlayOpts{{Order: "topo"}} },
	},
	// experiment: a validator that sleeps through more than 1000 events; its speculative event on all heads is only built
	"xsleep": {
		gen:   func(r *rand.Rand, k int) GenCfg { return sleepGen(r) },
		plays: func(r *rand.Rand, k int) []PlayOpts { return sleepPlays() },
	},
	// experiment: many validators of equal weight and a light forker, naps and partitions: an Atropos that does not descend from the previous one
	"xwide": {
		gen: func(r *rand.Rand, k int) GenCfg {
			n := 7 + r.Intn(3)
			w := make([]int, n+1)
			for i := range w {
				w[i] = 5
			}
			w[n] = 1
			return GenCfg{Weights: w, Epochs: 1, EpochEvents: 14 * n, MaxParents: 2 + r.Intn(3), Cheaters: 1, ForkProb: 0.3, SiblingForks: 0.5,
				NapProb: []float64{0.05, 0.1, 0.2}[r.Intn(3)], Partition: r.Intn(2) == 0, OldParent: []float64{0.1, 0.3}[r.Intn(2)], Lag: 0.2}
		},
		plays: func(r *rand.Rand, k int) []PlayOpts { return []PlayOpts{{Order: "topo"}} },
	},
	// experiment: dense DAGs with a slow first validator
	"xlag": {
		gen: func(r *rand.Rand, k int) GenCfg {
			g := baseGen(r, k)
			g.MaxParents = len(g.Weights)
			g.OldParent = 0.02
			g.Partition = false
			g.LagHeavy = true
			g.Cheaters = 0
			return g
		},
		plays: func(r *rand.Rand, k int) []PlayOpts { return []PlayOpts{{Order: "topo"}} },
	},
	// order independence: generator order + three other parents-first orders, multi-epoch
	"c01": {
		gen: func(r *rand.Rand, k int) GenCfg {
			g := baseGen(r, k)
			if k%8 == 7 { // more than 100 frames, one validator almost silent: its old events can arrive very late
				return GenCfg{Weights: [][]int{{3, 1}, {3, 3, 1}, {2, 2, 2, 1}}[(k/8)%3], Epochs: 1, EpochEvents: 112 + 100*((k/8)%3), MaxParents: 1 + len([][]int{{3, 1}, {3, 3, 1}, {2, 2, 2, 1}}[(k/8)%3]), Sleeper: true}
			}
			if k%2 == 0 {
				g = multiEpoch(r, g)
			}
			if k%4 == 2 { // decisions held back by a slow first validator; the epoch is sealed by a block decided inside a cascade
				g.MaxParents = len(g.Weights)
				g.OldParent = 0.02
				g.Partition = false
				g.LagHeavy = true
				g.NapProb = 0.05
				g.SealFrames = nil
				g.SealAtCascade = true
			}
			return g
		},
		plays: func(r *rand.Rand, k int) []PlayOpts {
			if k%8 == 7 {
				return []PlayOpts{{Order: "rarelast"}, {Order: "late"}}
			}
			return []PlayOpts{{Order: "topo"}, {Order: "lastval"}, {Order: "late"}}
		},
	},
	// block contents
	"c02": {
		gen: func(r *rand.Rand, k int) GenCfg {
			g := baseGen(r, k)
			if k%3 == 0 {
				g = multiEpoch(r, g)
			}
			if len(g.Weights) >= 4 {
				g.Cheaters = 1
				g.ForkProb = 0.25
			}
			if k%10 == 9 { // a long stall: a minority gossips alone, then one block confirms hundreds of events
				return GenCfg{Weights: [][]int{{1, 1, 1, 1}, {2, 2, 1, 1, 1}, {3, 2, 2, 1}}[(k/10)%3], Epochs: 1, EpochEvents: 380 + r.Intn(60), MaxParents: 4,
					Stall: 300 + r.Intn(40), OldParent: 0.02}
			}
			if k%2 == 1 { // a slow first validator in a dense DAG: roots that pass several frames and get elected
				g.MaxParents = len(g.Weights)
				g.OldParent = 0.02
				g.Partition = false
				g.LagHeavy = true
				g.Cheaters = 0
			}
			return g
		},
		plays: func(r *rand.Rand, k int) []PlayOpts { return []PlayOpts{{Order: orders[k%3]}} },
	},
	// cheater lists, also with forkers >= 1/3
	"c03": {
		gen: func(r *rand.Rand, k int) GenCfg {
			g := baseGen(r, k)
			g.Cheaters = 1 + r.Intn(2)
			g.ForkProb = 0.3
			if k%3 == 0 { // several light forkers of different weights: the canonical order of the list differs from the id order
				g.Weights = [][]int{{6, 5, 4, 2, 1}, {7, 6, 5, 3, 2, 1}, {4, 4, 4, 2, 1}, {9, 8, 3, 2, 1}, {5, 5, 5, 2, 1, 1}}[(k/3)%5]
				g.Cheaters = 3
				g.ForkProb = 0.7
				g.MaxParents = len(g.Weights)
				g.Partition = false
				g.Lag = 0
				g.NapProb = 0
				g.LagHeavy = false
				g.EpochEvents = 75
			}
			if k%3 == 2 {
				g.ByzHeavy = true
				g.Cheaters = 1 + r.Intn(len(g.Weights)/2+1)
			}
			return g
		},
		plays: func(r *rand.Rand, k int) []PlayOpts { return []PlayOpts{{Order: orders[k%3]}} },
	},
	// frame rule: wrong-frame clones, speculative builds, build histories, lazy frames, the +100 cap
	"c04": {
		gen: func(r *rand.Rand, k int) GenCfg {
			g := baseGen(r, k)
			g.LazyFrame = 0.15
			g.BigIdx = true
			if k%7 == 6 {
				g = GenCfg{Weights: []int{3, 1}, Epochs: 1, EpochEvents: 112, MaxParents: 2, Sleeper: true, BigIdx: true}
			}
			return g
		},
		plays: func(r *rand.Rand, k int) []PlayOpts {
			hist := []int{1, 255, 256, 257, 511, 512, 767}[k%7]
			return []PlayOpts{
				{Order: "gen", Builds: 0.4, Rejects: 0.5, BuildEach: true, BigIdx: true, RichBuilds: 0.3, Rebuilds: 0.5},
				{Order: "topo", BuildEach: true, BuildHistory: hist, BigIdx: true},
				{Order: "gen", BuildEach: true, ResetAfter: 3 + r.Intn(20), Reweigh: true},
			}
		},
	},
	// forkless cause: random + all pairs, warm and cold, three orders, forkers also beyond 1/3
	"c05": {
		gen: func(r *rand.Rand, k int) GenCfg {
			g := baseGen(r, k)
			if g.EpochEvents > 40 {
				g.EpochEvents = 40
			}
			g.Cheaters = r.Intn(3)
			g.ForkProb = 0.25
			if k%4 == 3 {
				g.ByzHeavy = true
			}
			return g
		},
		plays: func(r *rand.Rand, k int) []PlayOpts {
			return []PlayOpts{
				{Order: "topo", FCQueries: 4, FCAllPairs: true, Builds: 0.2, Rejects: 0.2},
				{Order: "late", FCAllPairs: true, ColdIndex: true},
				{Order: "lastval", FCQueries: 2, FCAllPairs: true, BigIdx: true},
			}
		},
	},
	// merged vector clocks
	"c06": {
		gen: func(r *rand.Rand, k int) GenCfg {
			g := baseGen(r, k)
			g.Cheaters = 1 + r.Intn(3)
			g.ForkProb = 0.35
			if k%4 == 3 {
				g.ByzHeavy = true
			}
			return g
		},
		plays: func(r *rand.Rand, k int) []PlayOpts {
			return []PlayOpts{{Order: "topo", MHB: true}, {Order: "late", MHB: true, RestartEvery: 7}}
		},
	},
	// rejected and merely built events leave no trace
	"c07": {
		gen: func(r *rand.Rand, k int) GenCfg {
			g := baseGen(r, k)
			if k%10 == 9 { // a validator sleeps through more than 1000 events; what it could build on all heads is only built, its real event is sparse
				return sleepGen(r)
			}
			if k%3 == 0 {
				g = multiEpoch(r, g)
			}
			return g
		},
		plays: func(r *rand.Rand, k int) []PlayOpts {
			o := orders[k%3]
			if k%10 == 9 {
				return sleepPlays()
			}
			return []PlayOpts{{Order: o, Builds: 0.8, Rejects: 0.8, BuildEach: true, RichBuilds: 0.7, Rebuilds: 0.5, FCQueries: 2}, {Order: o}}
		},
	},
	// restart at every boundary, at sparse boundaries (caches warm in between) and never (twin)
	"c08": {
		gen: func(r *rand.Rand, k int) GenCfg {
			g := multiEpoch(r, baseGen(r, k))
			if k%2 == 1 && len(g.Weights) >= 4 {
				g.Cheaters = 1 + r.Intn(2)
				g.ForkProb = 0.3
				g.SiblingForks = 0.6
			}
			return g
		},
		plays: func(r *rand.Rand, k int) []PlayOpts {
			return []PlayOpts{{Order: orders[k%3], RestartEvery: 1}, {Order: "gen", RestartEvery: 1, BuildEach: true},
				{Order: orders[(k+1)%3], RestartEvery: 5 + r.Intn(9), RichBuilds: 0.5}, {Order: orders[(k+1)%3], RichBuilds: 0.5, MHB: true}}
		},
	},
	// epoch sealing and direct resets
	"c09": {
		gen: func(r *rand.Rand, k int) GenCfg {
			g := baseGen(r, k)
			g.Epochs = 3 + r.Intn(2)
			g.SealFrames = nil
			for i := 0; i < g.Epochs-1; i++ {
				g.SealFrames = append(g.SealFrames, 1+(k+i)%5)
			}
			g.MutateVals = k%4 != 0
			g.EpochEvents = g.EpochEvents * 2 / 3
			if k%3 == 1 { // decisions held back by a slow first validator, then several frames decided by one call: seals inside such a cascade
				g.MaxParents = len(g.Weights)
				g.OldParent = 0.02
				g.Partition = false
				g.LagHeavy = true
				g.NapProb = 0.05
				g.SealFrames = nil
				g.SealAtCascade = true
			}
			return g
		},
		plays: func(r *rand.Rand, k int) []PlayOpts {
			return []PlayOpts{{Order: orders[k%3]}, {Order: "gen", StartEpoch: 2}, {Order: "topo", StartEpoch: 3},
				{Order: "gen", ResetAfter: -1}, {Order: orders[(k+1)%3], ResetAfter: 1 + r.Intn(25)}, {Order: orders[(k+2)%3], ResetAfter: -1}}
		},
	},
	// reference implementation: ties, no-quorums, deep rounds
	"c10": {
		gen: func(r *rand.Rand, k int) GenCfg {
			g := baseGen(r, k)
			if k%14 == 13 { // 13-16 validators with many equal weights: the canonical order (weight, then id) decides which root is the Atropos
				n := 13 + r.Intn(4)
				w := make([]int, n)
				for i := range w {
					w[i] = 1 + i%3
				}
				return GenCfg{Weights: w, Epochs: 1, EpochEvents: 9 * n, MaxParents: n, OldParent: 0.02}
			}
			if k%2 == 0 {
				g.Weights = [][]int{{1, 1}, {1, 1, 1, 1}, {2, 2}, {2, 2, 2, 2}, {1, 1, 1, 1, 1, 1}, {2, 2, 1, 1}, {3, 3, 3, 3, 3, 3}}[(k/2)%7]
				g.MaxParents = len(g.Weights)
				g.Partition = false
				if k%4 == 0 {
					g.MaxParents = len(g.Weights)/2 + 1 + r.Intn(2)
					g.Rounds = true
					g.ViewP = 0.45 + 0.4*r.Float64()
					g.OldParent = 0.05
				}
			}
			if !g.Rounds {
				g.Lag = 0.4
			}
			return g
		},
		plays: func(r *rand.Rand, k int) []PlayOpts { return []PlayOpts{{Order: orders[k%3]}} },
	},
}

func sameBlocks(a, b []BlockRec) bool {
	if len(a) != len(b) {
		return false
	}
	for i := range a {
		x, y := a[i], b[i]
		if x.Epoch != y.Epoch || x.Frame != y.Frame || x.Atropos != y.Atropos || !reflect.DeepEqual(x.Cheaters, y.Cheaters) {
			return false
		}
		if (x.Seal == nil) != (y.Seal == nil) {
			return false
		}
	}
	return true
}

// CmdRecord: vh lachrecord -profile c01 -n 12 -out trace.ndjson
func CmdRecord(args []string, seed int64) int {
	fs := flag.NewFlagSet("lachrecord", flag.ExitOnError)
	prof := fs.String("profile", "c01", "profile")
	n := fs.Int("n", 10, "number of generated DAGs")
	out := fs.String("out", "trace.ndjson", "trace file")
	fs.Parse(args)
	p, ok := profiles[*prof]
	if !ok {
		fmt.Fprintln(os.Stderr, "unknown profile", *prof)
		return 2
	}
	f, err := os.Create(*out)
	if err != nil {
		fmt.Fprintln(os.Stderr, err)
		return 2
	}
	defer f.Close()
	rec := NewRecorder(f)
	defer rec.Flush()
	disagreements := []string{}
	for k := 0; k < *n; k++ {
		r := rand.New(rand.NewSource(seed*1000003 + int64(k)))
		g := p.gen(r, k)
		sc := Generate(r, g, rec)
		if len(g.Weights) >= 13 {
			rec.Stats["dags_with_13_or_more_validators"]++
		}
		nev := 0
		for _, ep := range sc.Epochs {
			nev += len(ep.Events)
			if ep.Byz {
				rec.Stats["byz_epochs"]++
			}
			if len(ep.Cheaters) > 0 {
				rec.Stats["epochs_with_cheaters"]++
			}
		}
		rec.Stats["events_generated"] += nev
		rec.Stats["epochs"] += len(sc.Epochs)
		var ref []BlockRec
		for i, o := range p.plays(r, k) {
			blocks, critical := Play(r, sc, o, rec)
			if critical {
				rec.Stats["critical_runs"]++
				continue
			}
			if o.StartEpoch > 1 || o.ResetAfter != 0 {
				continue
			}
			if ref == nil {
				ref = blocks
			} else if !sameBlocks(ref, blocks) {
				disagreements = append(disagreements, fmt.Sprintf("dag %d play %d: %d vs %d blocks", k, i, len(ref), len(blocks)))
			}
		}
	}
	rec.Stats["lines"] = rec.Lines
	res := map[string]interface{}{"stats": rec.Stats, "disagreements": disagreements}
	json.NewEncoder(os.Stdout).Encode(res)
	return 0
}
