// Package lach drives the real consensus (abft.IndexedLachesis over vecfc.Index) and records
// one trace line per public call, for validation against specs/lachesis/LachesisTrace.tla.
package lach

import (
	"fmt"

	"github.com/Fantom-foundation/lachesis-base/abft"
	"github.com/Fantom-foundation/lachesis-base/hash"
	"github.com/Fantom-foundation/lachesis-base/inter/dag"
	"github.com/Fantom-foundation/lachesis-base/inter/idx"
	"github.com/Fantom-foundation/lachesis-base/inter/pos"
	"github.com/Fantom-foundation/lachesis-base/kvdb"
	"github.com/Fantom-foundation/lachesis-base/kvdb/memorydb"
	"github.com/Fantom-foundation/lachesis-base/lachesis"
	"github.com/Fantom-foundation/lachesis-base/utils/adapters"
	"github.com/Fantom-foundation/lachesis-base/utils/cachescale"
	"github.com/Fantom-foundation/lachesis-base/vecfc"
)

type EvStore map[hash.Event]dag.Event

func (s EvStore) HasEvent(h hash.Event) bool { _, ok := s[h]; return ok }
func (s EvStore) GetEvent(h hash.Event) dag.Event {
	e, ok := s[h]
	if !ok {
		return nil
	}
	return e
}

// BlockRec is one block as reported through the consensus callbacks.
type BlockRec struct {
	Epoch    idx.Epoch
	Frame    idx.Frame
	Atropos  hash.Event
	Cheaters []idx.ValidatorID
	Applied  []hash.Event
	Seal     *pos.Validators // validators returned by EndBlock (nil = no seal)
}

// SealFn decides, from the application's side, whether a block seals the epoch.
type SealFn func(epoch idx.Epoch, frame idx.Frame) *pos.Validators

type Inst struct {
	L       *abft.IndexedLachesis
	Store   *abft.Store
	Index   *vecfc.Index
	Adapter *adapters.VectorToDagIndexer
	Input   EvStore
	mainDB  kvdb.Store
	epochDB map[idx.Epoch]kvdb.Store
	restored map[idx.Epoch]kvdb.Store
	Blocks  []BlockRec
	SealAt  SealFn
	BigIdx  bool // default-size index caches instead of the lite ones
}

type critErr struct{ err error }

// panicErr marks a panic that was not a crit() call.
type panicErr struct{ msg string }

func (p panicErr) Error() string { return "panic: " + p.msg }

func crit(err error) { panic(critErr{err}) }

func (in *Inst) callbacks() lachesis.ConsensusCallbacks {
	return lachesis.ConsensusCallbacks{BeginBlock: func(b *lachesis.Block) lachesis.BlockCallbacks {
		rec := BlockRec{Epoch: in.Store.GetEpoch(), Frame: in.Store.GetLastDecidedFrame() + 1, Atropos: b.Atropos,
			Cheaters: append([]idx.ValidatorID{}, b.Cheaters...)}
		return lachesis.BlockCallbacks{
			ApplyEvent: func(e dag.Event) { rec.Applied = append(rec.Applied, e.ID()) },
			EndBlock: func() *pos.Validators {
				if in.SealAt != nil {
					rec.Seal = in.SealAt(rec.Epoch, rec.Frame)
				}
				in.Blocks = append(in.Blocks, rec)
				return rec.Seal
			},
		}
	}}
}

func (in *Inst) open() {
	// the epoch-database producer hands out a restored database once (after a restart); every other request gets
	// a fresh empty database, as a real producer does after the previous database of that epoch was dropped
	in.Store = abft.NewStore(in.mainDB, func(e idx.Epoch) kvdb.Store {
		if db, ok := in.restored[e]; ok {
			delete(in.restored, e)
			in.epochDB[e] = db
			return db
		}
		in.epochDB[e] = memorydb.New()
		return in.epochDB[e]
	}, crit, abft.LiteStoreConfig())
	cfg := vecfc.LiteConfig()
	if in.BigIdx {
		cfg = vecfc.DefaultConfig(cachescale.Identity)
	}
	in.Index = vecfc.NewIndex(crit, cfg)
	in.Adapter = &adapters.VectorToDagIndexer{Index: in.Index}
	in.L = abft.NewIndexedLachesis(in.Store, in.Input, in.Adapter, crit, abft.LiteConfig())
}

// NewInst creates an instance with the given genesis.
func NewInst(epoch idx.Epoch, vals *pos.Validators, input EvStore, bigIdx bool) *Inst {
	in := &Inst{Input: input, mainDB: memorydb.New(), epochDB: map[idx.Epoch]kvdb.Store{}, restored: map[idx.Epoch]kvdb.Store{}, BigIdx: bigIdx}
	in.open()
	if err := in.Store.ApplyGenesis(&abft.Genesis{Epoch: epoch, Validators: vals}); err != nil {
		panic(err)
	}
	if err := in.L.Bootstrap(in.callbacks()); err != nil {
		panic(err)
	}
	return in
}

func copyDB(src kvdb.Store) kvdb.Store {
	dst := memorydb.New()
	it := src.NewIterator(nil, nil)
	for it.Next() {
		k := append([]byte{}, it.Key()...)
		v := append([]byte{}, it.Value()...)
		dst.Put(k, v)
	}
	it.Release()
	return dst
}

// Restart tears the instance down and rebuilds it from copies of its persisted main and epoch
// databases, with a fresh vector index over the persisted index data.
func (in *Inst) Restart() error {
	in.mainDB = copyDB(in.mainDB)
	ep := in.Store.GetEpoch()
	cur := in.epochDB[ep]
	in.epochDB = map[idx.Epoch]kvdb.Store{}
	in.restored = map[idx.Epoch]kvdb.Store{}
	if cur != nil {
		in.restored[ep] = copyDB(cur)
	}
	nb := len(in.Blocks)
	in.open()
	if err := in.L.Bootstrap(in.callbacks()); err != nil {
		return err
	}
	if len(in.Blocks) != nb {
		return fmt.Errorf("blocks emitted during bootstrap")
	}
	return nil
}

// ResetTo uses Orderer.Reset to jump to an epoch and validator set.
func (in *Inst) ResetTo(epoch idx.Epoch, vals *pos.Validators) error {
	return in.L.Reset(epoch, vals)
}

// guarded runs f and converts a crit() panic into an error.
func guarded(f func() error) (err error, critical bool) {
	defer func() {
		if p := recover(); p != nil {
			if ce, ok := p.(critErr); ok {
				err, critical = ce.err, true
				return
			}
			// any other panic inside the library is recorded as such (the specification has no step for it)
			err, critical = panicErr{fmt.Sprint(p)}, true
		}
	}()
	return f(), false
}
