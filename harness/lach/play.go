package lach

import (
	"fmt"
	"math/rand"
	"sort"

	"github.com/Fantom-foundation/lachesis-base/inter/dag/tdag"
	"github.com/Fantom-foundation/lachesis-base/inter/idx"
)

type PlayOpts struct {
	Order        string  // "gen" | "topo" | "lastval" | "late"
	RestartEvery int     // 0 = never, k = after every k-th accepted event
	Builds       float64 // probability of a speculative Build (random parents) before an event
	Rejects      float64 // probability of wrong-frame clones submitted around an event
	BuildEach    bool    // Build a copy of every event right before processing it and log the frame
	FCQueries    int     // random forkless-cause queries after each event
	FCAllPairs   bool    // all pairs at the end of each epoch (and at the end)
	MHB          bool    // merged highest-before of each processed event
	BigIdx       bool
	StartEpoch   int     // >1: the instance is Reset() directly to that epoch and fed only later events
	ColdIndex    bool    // restart once before the final all-pairs queries (cold caches)
	RichFrom     int     // rich builds only after that many events of the epoch
	RichBuilds   float64 // probability of a speculative Build of the creator's next event on top of ALL current heads, right before its real (sparser) event
	Rebuilds     float64 // probability that the BuildEach copy is built twice: first with the self-parent only, then again (same object) with all parents
	Reweigh      bool    // with ResetAfter: in the scenario's last epoch the Reset installs other weights for the same validators under the same epoch number; events whose claimed frame is no longer allowed are rejected and their descendants are not fed
	ResetAfter   int     // >0: after that many accepted events of an epoch the instance is Reset() to the very same epoch and validator set and the epoch's events are fed again from the start
	BuildHistory int     // >0: once per epoch, restart, then do this many sparse speculative builds at the same epoch/Lamport before building a root
}

// topological order variants of an epoch's events
func orderEvents(r *rand.Rand, evs []*Ev, mode string) []*Ev {
	if mode == "gen" || mode == "" || len(evs) == 0 {
		return evs
	}
	if len(mode) > 5 && mode[:5] == "last:" {
		// a random parents-first order of all other events, then the given childless event
		var lastID int
		fmt.Sscan(mode[5:], &lastID)
		var rest []*Ev
		var last *Ev
		for _, e := range evs {
			if e.ID == lastID {
				last = e
			} else {
				rest = append(rest, e)
			}
		}
		out := orderEvents(r, rest, "topo")
		if last != nil {
			out = append(out, last)
		}
		return out
	}
	n := len(evs)
	idxOf := map[int]int{}
	for i, e := range evs {
		idxOf[e.ID] = i
	}
	indeg := make([]int, n)
	children := make([][]int, n)
	for i, e := range evs {
		for _, p := range e.Ps {
			if j, ok := idxOf[p]; ok {
				indeg[i]++
				children[j] = append(children[j], i)
			}
		}
	}
	var ready []int
	for i := range evs {
		if indeg[i] == 0 {
			ready = append(ready, i)
		}
	}
	// "lastval": events of one validator are delayed as long as possible
	var delayed = evs[r.Intn(n)].Cr
	if mode == "rarelast" {
		// the validator with the fewest events is delayed as long as possible (its old events arrive very late)
		cnt := map[idx.ValidatorID]int{}
		for _, e := range evs {
			cnt[e.Cr]++
		}
		for cr, c := range cnt {
			if c < cnt[delayed] || (c == cnt[delayed] && cr < delayed) {
				delayed = cr
			}
		}
		mode = "lastval"
	}
	out := make([]*Ev, 0, n)
	for len(ready) > 0 {
		var k int
		switch mode {
		case "lastval":
			cands := []int{}
			for i, x := range ready {
				if evs[x].Cr != delayed {
					cands = append(cands, i)
				}
			}
			if len(cands) > 0 {
				k = cands[r.Intn(len(cands))]
			} else {
				k = r.Intn(len(ready))
			}
		case "late": // prefer the most recently created ready event (reverse arrival)
			k = 0
			for i, x := range ready {
				if x > ready[k] {
					k = i
				}
			}
			if r.Intn(4) == 0 {
				k = r.Intn(len(ready))
			}
		default:
			k = r.Intn(len(ready))
		}
		x := ready[k]
		ready = append(ready[:k], ready[k+1:]...)
		out = append(out, evs[x])
		for _, c := range children[x] {
			indeg[c]--
			if indeg[c] == 0 {
				ready = append(ready, c)
			}
		}
	}
	return out
}

func canonIdx(in *Inst) []idx.ValidatorID { return in.Store.GetValidators().SortedIDs() }

func mhbVector(in *Inst, ev *Ev, viaAdapter bool) []int {
	n := int(in.Store.GetValidators().Len())
	out := make([]int, n)
	if viaAdapter {
		m := in.Adapter.GetMergedHighestBefore(ev.E.ID())
		for i := 0; i < n; i++ {
			s := m.Get(idx.Validator(i))
			if s.IsForkDetected() {
				out[i] = -1
			} else {
				out[i] = int(s.Seq())
			}
		}
		return out
	}
	m := in.Index.GetMergedHighestBefore(ev.E.ID())
	for i := 0; i < n; i++ {
		s := m.Get(idx.Validator(i))
		if s.IsForkDetected() {
			out[i] = -1
		} else {
			out[i] = int(s.Seq)
		}
	}
	return out
}

// Play feeds the scenario into a fresh instance according to opts and records its trace.
// Returns the blocks the instance emitted and whether the run ended on a critical error (Byzantine run).
func Play(r *rand.Rand, s *Scenario, o PlayOpts, rec *Recorder) (blocks []BlockRec, critical bool) {
	first := 0
	if o.StartEpoch > 1 {
		first = o.StartEpoch - 1
		if first >= len(s.Epochs) {
			return nil, false
		}
	}
	ep0 := s.Epochs[first]
	var in *Inst
	if first == 0 {
		in = NewInst(ep0.Epoch, buildVals(ep0.Vals), s.Input, o.BigIdx)
	} else {
		// an instance at genesis of epoch 1, then Reset directly to the later epoch
		in = NewInst(s.Epochs[0].Epoch, buildVals(s.Epochs[0].Vals), s.Input, o.BigIdx)
		if err := in.ResetTo(ep0.Epoch, buildVals(ep0.Vals)); err != nil {
			panic(err)
		}
	}
	in.SealAt = s.SealFnFor()
	anyByz := false
	for _, ep := range s.Epochs[first:] {
		anyByz = anyByz || ep.Byz
	}
	rec.Reset(ep0.Epoch, ep0.Vals, anyByz)
	cloneID := 1 << 20
	histDone := map[idx.Epoch]bool{}
	accepted := 0
	for _, ep := range s.Epochs[first:] {
		if in.Store.GetEpoch() != ep.Epoch {
			break // the instance did not follow the scenario's epoch transition: the "end" line lets the spec judge
		}
		evs := orderEvents(r, ep.Events, o.Order)
		var done []*Ev
		resetDone := false
		reweighed := false
		notFed := map[int]bool{}
		for i := 0; i < len(evs); i++ {
			ev := evs[i]
			if reweighed {
				skip := false
				for _, p := range ev.Ps {
					skip = skip || notFed[p]
				}
				if skip {
					notFed[ev.ID] = true
					continue
				}
			}
			adaptive := false
			if o.ResetAfter < 0 && !resetDone && in.Store.GetLastDecidedFrame() == 0 {
				// as late as possible before the first decision of the epoch: roots of frame 3 exist, nothing is decided yet
				for _, d := range done {
					if d.Frame >= 3 {
						adaptive = true
					}
				}
			}
			if (adaptive || (o.ResetAfter > 0 && len(done) == o.ResetAfter)) && !resetDone && in.Store.GetEpoch() == ep.Epoch {
				// the application re-synchronises: Reset to the epoch it is in, then the same events again
				resetDone = true
				vals, byz := ep.Vals, anyByz
				if o.Reweigh && ep == s.Epochs[len(s.Epochs)-1] && ep.SealFrame == 0 && len(ep.Vals) > 1 {
					// same epoch number, same validators, other weights
					vals = append([]ValW{}, ep.Vals...)
					same := true
					for k := range vals {
						vals[k].W = ep.Vals[(k+1)%len(vals)].W
						same = same && vals[k].W == ep.Vals[k].W
					}
					if same {
						vals[0].W *= 3
					}
					total, cw := 0, 0
					for _, v := range vals {
						total += int(v.W)
						if ep.Cheaters[v.ID] {
							cw += int(v.W)
						}
					}
					byz = byz || 3*cw >= total
					reweighed = true
					rec.Stats["resets_with_other_weights"]++
				}
				if err, _ := guarded(func() error { return in.ResetTo(ep.Epoch, buildVals(vals)) }); err != nil {
					rec.Crit("reset: " + err.Error())
					return in.Blocks, true
				}
				rec.Reset(ep.Epoch, vals, byz)
				rec.Stats["resets_mid_epoch"]++
				done = nil
				i = -1
				continue
			}
			if in.Store.GetEpoch() != ep.Epoch {
				break // sealed earlier in this order: the rest of the old epoch's events are no longer valid
			}
			// speculative build with random parents
			if o.Builds > 0 && len(done) > 0 && r.Float64() < o.Builds {
				var sp *Ev
				c := done[r.Intn(len(done))]
				for _, d := range done {
					if d.Cr == c.Cr && (sp == nil || r.Intn(2) == 0) {
						sp = d
					}
				}
				var others []*Ev
				seen := map[idx.ValidatorID]bool{c.Cr: true}
				for k := 0; k < r.Intn(4); k++ {
					d := done[r.Intn(len(done))]
					if !seen[d.Cr] {
						seen[d.Cr] = true
						others = append(others, d)
					}
				}
				bev, te := s.mkEvent(ep.Epoch, c.Cr, sp, others)
				err, crit := guarded(func() error { return in.L.Build(te) })
				if crit {
					rec.Crit(err.Error())
					return in.Blocks, true
				}
				if err == nil {
					rec.BuildLine(s, bev, te.Frame())
				}
			}
			if o.RichBuilds > 0 && ev.SP != 0 && len(done) >= o.RichFrom && r.Float64() < o.RichBuilds {
				// what the creator could have built: same self-parent, every other validator's latest event as parent
				latest := map[idx.ValidatorID]*Ev{}
				for _, d := range done {
					latest[d.Cr] = d
				}
				var others []*Ev
				for cr, d := range latest {
					if cr != ev.Cr {
						others = append(others, d)
					}
				}
				sort.Slice(others, func(i, j int) bool { return others[i].ID < others[j].ID })
				bev, te := s.mkEvent(ep.Epoch, ev.Cr, s.ByID[ev.SP], others)
				err, crit := guarded(func() error { return in.L.Build(te) })
				if crit {
					rec.Crit(err.Error())
					return in.Blocks, true
				}
				if err == nil {
					rec.BuildLine(s, bev, te.Frame())
					rec.Stats["rich_builds"]++
					if len(done) >= 1000 {
						rec.Stats["rich_builds_after_1000_events"]++
					}
					if te.Frame() > ev.MaxFr && ev.MaxFr >= ev.Frame {
						// the sparser real event claiming the frame of the richer candidate that was only built: not allowed
						cl := s.CloneWithFrame(ev, te.Frame(), cloneID)
						cloneID++
						s.Input[cl.ID()] = cl
						nb := len(in.Blocks)
						err, crit := guarded(func() error { return in.L.Process(cl) })
						if crit {
							rec.Crit(err.Error())
							return in.Blocks, true
						}
						rec.ProcessCloneLine(s, in, ev, cloneID, te.Frame(), err, in.Blocks[nb:])
						rec.Stats["clone_claims_built_frame"]++
						if err != nil {
							delete(s.Input, cl.ID())
						}
					}
				}
			}
			if o.BuildEach {
				cp := &tdag.TestEvent{}
				cp.SetEpoch(ev.E.Epoch())
				cp.SetCreator(ev.E.Creator())
				cp.SetSeq(ev.E.Seq())
				cp.SetLamport(ev.E.Lamport())
				cp.SetParents(ev.E.Parents())
				if o.Rebuilds > 0 && len(ev.E.Parents()) > 1 && ev.SP != 0 && r.Float64() < o.Rebuilds {
					// an emitter that builds, learns about more heads, and builds the same object again
					cp.SetParents(ev.E.Parents()[:1])
					err, crit := guarded(func() error { return in.L.Build(cp) })
					if crit {
						rec.Crit(err.Error())
						return in.Blocks, true
					}
					if err == nil {
						first := *ev
						first.Ps = ev.Ps[:1]
						rec.BuildLine(s, &first, cp.Frame())
						rec.Stats["rebuilds"]++
					}
					cp.SetParents(ev.E.Parents())
				}
				err, crit := guarded(func() error { return in.L.Build(cp) })
				if crit {
					rec.Crit(err.Error())
					return in.Blocks, true
				}
				if err == nil {
					rec.BuildLine(s, ev, cp.Frame())
				}
			}
			// a history of speculative builds in front of the build of a root (same epoch and Lamport time)
			if o.BuildHistory > 0 && !histDone[ep.Epoch] && ev.SP != 0 && ev.Frame > s.ByID[ev.SP].Frame && len(ev.Ps) > 1 {
				histDone[ep.Epoch] = true
				if err, _ := guarded(in.Restart); err != nil {
					rec.Crit("restart: " + err.Error())
					return in.Blocks, true
				}
				rec.RestartLine(in)
				sp := s.ByID[ev.SP]
				for k := 0; k < o.BuildHistory; k++ {
					bev, te := s.mkEvent(ep.Epoch, ev.Cr, sp, nil)
					te.SetLamport(ev.E.Lamport())
					err, crit := guarded(func() error { return in.L.Build(te) })
					if crit {
						rec.Crit(err.Error())
						return in.Blocks, true
					}
					if err == nil && (k < 2 || k == o.BuildHistory-1) {
						rec.BuildLine(s, bev, te.Frame())
					}
				}
				cp := &tdag.TestEvent{}
				cp.SetEpoch(ev.E.Epoch())
				cp.SetCreator(ev.E.Creator())
				cp.SetSeq(ev.E.Seq())
				cp.SetLamport(ev.E.Lamport())
				cp.SetParents(ev.E.Parents())
				err, crit := guarded(func() error { return in.L.Build(cp) })
				if crit {
					rec.Crit(err.Error())
					return in.Blocks, true
				}
				if err == nil {
					rec.BuildLine(s, ev, cp.Frame())
					rec.Stats["build_after_history"]++
				}
			}
			// wrong-frame clones
			if o.Rejects > 0 && r.Float64() < o.Rejects {
				spf := idx.Frame(0)
				if ev.SP != 0 {
					spf = s.ByID[ev.SP].Frame
				}
				top := ev.MaxFr
				if top < ev.Frame {
					top = ev.Frame
				}
				cands := []idx.Frame{top + 1 + idx.Frame(r.Intn(3)), top + 7, top + 101}
				if spf >= 2 {
					cands = append(cands, spf-1)
				}
				if ev.SP == 0 {
					cands = append(cands, 2, 0)
				}
				fr := cands[r.Intn(len(cands))]
				cl := s.CloneWithFrame(ev, fr, cloneID)
				cloneID++
				s.Input[cl.ID()] = cl
				nb := len(in.Blocks)
				err, crit := guarded(func() error { return in.L.Process(cl) })
				if crit {
					rec.Crit(err.Error())
					return in.Blocks, true
				}
				rec.ProcessCloneLine(s, in, ev, cloneID, fr, err, in.Blocks[nb:])
				if err != nil {
					delete(s.Input, cl.ID())
				}
			}
			nb := len(in.Blocks)
			err, crit := guarded(func() error { return in.L.Process(ev.E) })
			if crit {
				rec.Crit(err.Error())
				return in.Blocks, true
			}
			rec.ProcessLine(s, in, ev, err, in.Blocks[nb:])
			if err != nil {
				notFed[ev.ID] = true
				if reweighed {
					rec.Stats["rejected_after_reweigh"]++
				}
				continue
			}
			accepted++
			sealedNow := in.Store.GetEpoch() != ep.Epoch
			if !sealedNow {
				done = append(done, ev)
				if o.MHB {
					rec.MHB(ev.ID, mhbVector(in, ev, false), "index")
					rec.MHB(ev.ID, mhbVector(in, ev, true), "adapter")
				}
				for q := 0; q < o.FCQueries; q++ {
					a, b := done[r.Intn(len(done))], done[r.Intn(len(done))]
					if r.Intn(3) == 0 {
						a = ev
					}
					rec.FC(a.ID, b.ID, in.Index.ForklessCause(a.E.ID(), b.E.ID()))
				}
			}
			if o.RestartEvery > 0 && accepted%o.RestartEvery == 0 {
				if err, _ := guarded(in.Restart); err != nil {
					rec.Crit("restart: " + err.Error())
					return in.Blocks, true
				}
				rec.RestartLine(in)
			}
		}
		if in.Store.GetEpoch() == ep.Epoch {
			// the stream of this epoch is exhausted and the instance is still in it
			if o.FCAllPairs {
				if o.ColdIndex {
					if err, _ := guarded(in.Restart); err != nil {
						rec.Crit("restart: " + err.Error())
						return in.Blocks, true
					}
					rec.RestartLine(in)
				}
				for _, a := range done {
					for _, b := range done {
						rec.FC(a.ID, b.ID, in.Index.ForklessCause(a.E.ID(), b.E.ID()))
					}
				}
				// and once more with warm caches, in another order
				for i := len(done) - 1; i >= 0; i-- {
					for _, b := range done {
						rec.FC(done[i].ID, b.ID, in.Index.ForklessCause(done[i].E.ID(), b.E.ID()))
					}
				}
			}
			rec.End()
			break
		}
	}
	return in.Blocks, false
}
