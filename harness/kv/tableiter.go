package kv

import (
	"bufio"
	"encoding/json"
	"flag"
	"fmt"
	"math/rand"
	"os"
	"strconv"

	"github.com/Fantom-foundation/lachesis-base/kvdb"
	"github.com/Fantom-foundation/lachesis-base/kvdb/flushable"
	"github.com/Fantom-foundation/lachesis-base/kvdb/table"
)

// spare returns a copy of b whose capacity exceeds its length, as slices built with append or cut out of a
// larger buffer have in real callers (e.g. every []byte("short") conversion).
func spare(b []byte) []byte {
	out := make([]byte, len(b), len(b)+24)
	copy(out, b)
	return out
}

// KV_NO_SCRIBBLE=1 switches the overwriting off (diagnostic only)
var noScribble = os.Getenv("KV_NO_SCRIBBLE") != ""

// scribble overwrites a caller-owned buffer (whole capacity) once the call it was handed to has returned:
// a store that kept the slice instead of copying it shows up as a changed key or value later.
func scribble(b []byte) {
	if noScribble {
		return
	}
	b = b[:cap(b)]
	for i := range b {
		b[i] = 0xee
	}
}

// CmdTableIter: vh kvtiter -conf conf.json <scenarios> <out.ndjson>
// Records tables used with iterators held open while lookups and writes go through the same table, sibling
// tables and the store underneath (pattern T); judged by specs/kv/TableIter.tla.
func CmdTableIter(args []string, seed int64) int {
	fs := flag.NewFlagSet("kvtiter", flag.ExitOnError)
	confPath := fs.String("conf", "", "KVCONF of MC_Table (prefix pairs)")
	fs.Parse(args)
	if fs.NArg() < 2 || *confPath == "" {
		fmt.Fprintln(os.Stderr, "usage: vh kvtiter -conf conf.json <scenarios> <out.ndjson>")
		return 2
	}
	conf, err := loadConf(*confPath)
	if err != nil || len(conf.Cfgs) == 0 {
		fmt.Fprintln(os.Stderr, "no prefix pairs in", *confPath, err)
		return 2
	}
	n, err := strconv.Atoi(fs.Arg(0))
	if err != nil {
		fmt.Fprintln(os.Stderr, err)
		return 2
	}
	f, err := os.Create(fs.Arg(1))
	if err != nil {
		fmt.Fprintln(os.Stderr, err)
		return 2
	}
	defer f.Close()
	w := bufio.NewWriter(f)
	defer w.Flush()
	dir, err := os.MkdirTemp(".", "kvti-") // own name: runs concurrently with kvreplay in the same cwd
	if err != nil {
		fmt.Fprintln(os.Stderr, err)
		return 2
	}
	env := &Env{Dir: dir, Conf: conf}
	defer os.RemoveAll(dir)
	defer env.CloseAll()
	raws := map[string]*rawDB{}
	for _, b := range []string{"mem", "ldb", "peb"} {
		raws[b] = env.newRaw(b, "titer")
	}
	rnd := rand.New(rand.NewSource(seed))
	stats := map[string]int{}
	kinds := []string{"mem", "fl/mem", "ldb", "peb", "fl/ldb", "mem", "fl/peb"}
	for s := 0; s < n; s++ {
		cfg := conf.Cfgs[s%len(conf.Cfgs)]
		kind := kinds[(s/len(conf.Cfgs))%len(kinds)]
		if err := tableIterScenario(rnd, raws, kind, cfg, w, stats); err != nil {
			fmt.Fprintln(os.Stderr, err)
			return 2
		}
		stats["scenarios"]++
	}
	json.NewEncoder(os.Stdout).Encode(stats)
	return 0
}

func tableIterScenario(rnd *rand.Rand, raws map[string]*rawDB, kind string, cfg tableCfg, w *bufio.Writer, stats map[string]int) (err error) {
	backend := kind
	wrap := false
	if len(kind) > 3 && kind[:3] == "fl/" {
		backend, wrap = kind[3:], true
	}
	db, err := raws[backend].get()
	if err != nil {
		return err
	}
	var top kvdb.Store = db
	if wrap {
		top = flushable.Wrap(db)
	}
	emit := func(m map[string]interface{}) {
		b, _ := json.Marshal(m)
		w.Write(b)
		w.WriteByte('\n')
		stats["lines"]++
	}
	// three tables: the configured pair, and a sibling of table 2 under table 1
	p1, p2 := decKey(cfg.P1), decKey(cfg.P2)
	var tables [3]*table.Table
	tables[0] = table.New(top, spare(p1))
	if cfg.Nested {
		tables[1] = tables[0].NewTable(spare(p2[len(p1):]))
	} else {
		tables[1] = table.New(top, spare(p2))
	}
	tables[2] = tables[0].NewTable(spare([]byte{'b'}))
	prefixes := [][]byte{p1, p2, append(append([]byte{}, p1...), 'b')}
	// initial content, written directly: keys under the prefixes and a few others
	rawc := []interface{}{}
	seen := map[string]bool{}
	for i := 4 + rnd.Intn(8); i > 0; i-- {
		k := rndKey(rnd, 2)
		if rnd.Intn(4) != 0 {
			k = append(append([]byte{}, prefixes[rnd.Intn(3)]...), k...)
		}
		if seen[string(k)] {
			continue
		}
		seen[string(k)] = true
		v := rndVal(rnd)
		kb, vb := spare(k), spare(v)
		if err := top.Put(kb, vb); err != nil {
			return err
		}
		scribble(kb)
		scribble(vb)
		rawc = append(rawc, []interface{}{ints(k), string(v)})
	}
	emit(map[string]interface{}{"op": "reset", "backend": kind, "prefixes": []interface{}{ints(prefixes[0]), ints(prefixes[1]), ints(prefixes[2])}, "raw": rawc})
	type held struct {
		it     kvdb.Iterator
		bufs   [][]byte // the caller-owned prefix/start buffers: left alone while the iterator is open
		writes bool
	}
	open := map[int]*held{}
	defer func() {
		for _, h := range open {
			h.it.Release()
		}
		if p := recover(); p != nil {
			emit(map[string]interface{}{"op": "panic", "msg": fmt.Sprint(p)})
			stats["panics"]++
			err = nil
		}
	}()
	pick := func() int {
		ids := []int{}
		for id := 1; id <= 3; id++ {
			if open[id] != nil {
				ids = append(ids, id)
			}
		}
		return ids[rnd.Intn(len(ids))]
	}
	steps := 14 + rnd.Intn(18)
	readonly := rnd.Intn(2) == 0 // half of the scenarios only look things up while iterating
	for s := 0; s < steps; s++ {
		c := rnd.Intn(20)
		if readonly && c >= 14 {
			c = 10 + rnd.Intn(4)
		}
		if len(open) == 0 && c < 10 {
			c = 0
		} else if len(open) == 3 && c < 3 {
			c = 4
		}
		t := 1 + rnd.Intn(3)
		tb := tables[t-1]
		switch {
		case c < 3: // open an iterator, mostly with a non-empty iterator prefix
			id := 1
			for open[id] != nil {
				id++
			}
			prefix, start := rndKey(rnd, 1), rndKey(rnd, 1)
			if rnd.Intn(4) == 0 {
				prefix = nil
			}
			if rnd.Intn(2) == 0 {
				start = nil
			}
			h := &held{}
			var pb, sb []byte
			if prefix != nil {
				pb = spare(prefix)
				h.bufs = append(h.bufs, pb)
			}
			if start != nil {
				sb = spare(start)
				h.bufs = append(h.bufs, sb)
			}
			h.it = tb.NewIterator(pb, sb)
			open[id] = h
			emit(map[string]interface{}{"op": "iter", "id": id, "t": t, "prefix": ints(prefix), "start": ints(start)})
			stats["iterators"]++
		case c < 9: // advance
			id := pick()
			h := open[id]
			if h.it.Next() {
				emit(map[string]interface{}{"op": "next", "id": id, "ok": true, "k": ints(h.it.Key()), "v": string(h.it.Value())})
				stats["yields"]++
				if !h.writes {
					stats["yields_strict"]++
				}
			} else {
				emit(map[string]interface{}{"op": "next", "id": id, "ok": false, "k": []int{}, "v": ""})
				if e := h.it.Error(); e != nil {
					emit(map[string]interface{}{"op": "itererror", "id": id, "msg": e.Error()})
				}
			}
		case c < 10: // release; only now may the caller reuse the buffers it passed to NewIterator
			id := pick()
			open[id].it.Release()
			for _, b := range open[id].bufs {
				scribble(b)
			}
			delete(open, id)
			emit(map[string]interface{}{"op": "release", "id": id})
		case c < 14: // lookup through a table
			k := rndKey(rnd, 2)
			kb := spare(k)
			if rnd.Intn(2) == 0 {
				v, err := tb.Get(kb)
				if err != nil {
					return err
				}
				emit(map[string]interface{}{"op": "get", "t": t, "k": ints(k), "ok": v != nil, "v": string(v)})
				if v != nil {
					scribble(v)
				}
			} else {
				ok, err := tb.Has(kb)
				if err != nil {
					return err
				}
				emit(map[string]interface{}{"op": "has", "t": t, "k": ints(k), "ok": ok})
			}
			scribble(kb)
			if len(open) > 0 {
				stats["lookups_under_iterator"]++
			}
		case c < 17: // write through a table
			k := rndKey(rnd, 2)
			kb := spare(k)
			if rnd.Intn(3) == 0 {
				if err := tb.Delete(kb); err != nil {
					return err
				}
				emit(map[string]interface{}{"op": "del", "t": t, "k": ints(k)})
			} else {
				v := rndVal(rnd)
				vb := spare(v)
				if err := tb.Put(kb, vb); err != nil {
					return err
				}
				scribble(vb)
				emit(map[string]interface{}{"op": "put", "t": t, "k": ints(k), "v": string(v)})
			}
			scribble(kb)
			for _, h := range open {
				h.writes = true
			}
			if len(open) > 0 {
				stats["writes_under_iterator"]++
			}
		default: // write directly into the store underneath
			k := rndKey(rnd, 2)
			if rnd.Intn(2) == 0 {
				k = append(append([]byte{}, prefixes[rnd.Intn(3)]...), k...)
			}
			kb := spare(k)
			if rnd.Intn(3) == 0 {
				if err := top.Delete(kb); err != nil {
					return err
				}
				emit(map[string]interface{}{"op": "rdel", "k": ints(k)})
			} else {
				v := rndVal(rnd)
				vb := spare(v)
				if err := top.Put(kb, vb); err != nil {
					return err
				}
				scribble(vb)
				emit(map[string]interface{}{"op": "rput", "k": ints(k), "v": string(v)})
			}
			scribble(kb)
			for _, h := range open {
				h.writes = true
			}
		}
	}
	return nil
}
