package kv

import (
	"fmt"
	"os"
	"path/filepath"
	"sync"

	"github.com/Fantom-foundation/lachesis-base/kvdb"
	"github.com/Fantom-foundation/lachesis-base/kvdb/flushable"
	"github.com/Fantom-foundation/lachesis-base/kvdb/leveldb"
	"github.com/Fantom-foundation/lachesis-base/kvdb/memorydb"
	"github.com/Fantom-foundation/lachesis-base/kvdb/pebble"
	"github.com/Fantom-foundation/lachesis-base/kvdb/synced"
	"github.com/Fantom-foundation/lachesis-base/kvdb/table"
)

// Env is shared by all adapters of one harness run.
type Env struct {
	Conf  *Conf
	Dir   string // scratch directory under the process cwd; removed by the command when it ends
	mu    sync.Mutex
	dbs   []*rawDB
	stats map[string]*Stats // per adapter, see stats.go
}

// rawDB is one physical backend, opened once per adapter and wiped between uses
// (LevelDB/Pebble opens are slow, and a long-lived database is the more interesting object).
type rawDB struct {
	kind string // "mem" | "ldb" | "peb"
	path string
	db   kvdb.Store
	uses int
}

func (e *Env) newRaw(kind, name string) *rawDB {
	e.mu.Lock()
	defer e.mu.Unlock()
	r := &rawDB{kind: kind, path: filepath.Join(e.Dir, fmt.Sprintf("%s-%d-%s", kind, len(e.dbs), sanitize(name)))}
	e.dbs = append(e.dbs, r)
	return r
}

func sanitize(s string) string {
	b := []byte(s)
	for i, c := range b {
		if !(c >= 'a' && c <= 'z' || c >= '0' && c <= '9') {
			b[i] = '_'
		}
	}
	return string(b)
}

// get returns the backend, empty.
func (r *rawDB) get() (kvdb.Store, error) {
	r.uses++
	if r.kind == "mem" {
		// a fresh in-memory database every 64 uses, otherwise the same object wiped
		if r.db == nil || r.uses%64 == 0 {
			r.db = memorydb.New()
			return r.db, nil
		}
		return r.db, wipe(r.db)
	}
	if r.db != nil && r.kind == "ldb" && r.uses%256 == 0 {
		// every wipe leaves tombstones behind that each later iteration has to skip (measured: 9 000 uses of one
		// database cost 180 s of CPU, almost all of it in goleveldb's merged iterator): start over with a fresh one
		r.close()
	}
	if r.db == nil {
		var err error
		switch r.kind {
		case "ldb":
			// cache 32 MiB => write buffer about 1 MiB: memtables still rotate and tables get compacted during a run,
			// but not every few hundred writes (with the repository's minimum sizes goleveldb reported table
			// corruption / stale keys on this box under heavy load, with or without the harness's buffer tricks)
			r.db, err = leveldb.New(r.path, 32<<20, 64, nil, nil)
		case "peb":
			r.db, err = pebble.New(r.path, 32<<20, 64, nil, nil)
		default:
			err = fmt.Errorf("unknown backend %q", r.kind)
		}
		if err != nil {
			return nil, err
		}
		return r.db, nil
	}
	return r.db, wipe(r.db)
}

func (r *rawDB) close() {
	if r.db != nil && r.kind != "mem" {
		r.db.Close()
	}
	r.db = nil
	if r.kind != "mem" {
		os.RemoveAll(r.path)
	}
}

// CloseAll closes every backend opened through this Env.
func (e *Env) CloseAll() {
	e.mu.Lock()
	defer e.mu.Unlock()
	for _, r := range e.dbs {
		r.close()
	}
	e.dbs = nil
}

// ---- stackings (C23): a wrapper chain over one backend ----

// tablePrefixes are used in turn by the table stackings (raw bytes, including the 0x00/0xff boundaries).
var tablePrefixes = [][]byte{{'t'}, {'a', 0xff}, {0xff}, {}, {0x00}, {0xff, 0xff}, {'a'}}

// noise is written into the backend under a table stacking, outside the table's prefix
var noiseKeys = [][]byte{{0x00}, {'a'}, {'a', 0xff, 0xff}, {'b'}, {0xfe}, {0xff}, {0xff, 0xff, 0xff}, {'s'}, {'u'}, {0x00, 0x00}}

func hasPrefix(k, p []byte) bool {
	return len(k) >= len(p) && string(k[:len(p)]) == string(p)
}

type stack struct {
	top kvdb.Store
	// tick is called after every mutating call issued through top; flushable layers use it to flush
	// now and then (a flush must be invisible through the kvdb.Store interface)
	tick func()
	// replayTo is the writer handed to Batch.Replay for "replay into the store"
	replayTo kvdb.Writer
}

func buildStack(layers string, raw kvdb.Store, n int) (*stack, error) {
	s := &stack{top: raw, tick: func() {}}
	var flushers []*flushable.Flushable
	cnt := 0
	// layers are applied bottom-up: "table/flushable" = table over flushable over raw
	order := splitRev(layers)
	for _, l := range order {
		switch l {
		case "raw":
		case "table":
			p := tablePrefixes[n%len(tablePrefixes)]
			if len(p) > 0 {
				for _, nk := range noiseKeys {
					if !hasPrefix(nk, p) {
						if err := s.top.Put(nk, []byte("noise")); err != nil {
							return nil, err
						}
					}
				}
			}
			s.top = table.New(s.top, spare(p)) // prefix slice with cap > len, as callers have
		case "flushable":
			f := flushable.Wrap(s.top)
			flushers = append(flushers, f)
			s.top = f
		case "synced":
			// Replay of a synced batch holds the store's write lock for the whole replay, so replaying it
			// into the very same synced store self-deadlocks (sync.RWMutex is not reentrant). The writer
			// handed to Replay is therefore the store underneath the lock wrapper.
			s.replayTo = s.top
			s.top = synced.WrapStore(s.top, &sync.RWMutex{})
		default:
			return nil, fmt.Errorf("unknown layer %q", l)
		}
	}
	if s.replayTo == nil || order[len(order)-1] != "synced" || os.Getenv("KV_SYNCED_SELF_REPLAY") != "" {
		// KV_SYNCED_SELF_REPLAY=1 reproduces the self-deadlock described above (the process then dies with
		// "all goroutines are asleep" or hangs until the driver's timeout)
		s.replayTo = s.top
	}
	if len(flushers) > 0 {
		s.tick = func() {
			cnt++
			if cnt%3 == 0 {
				for _, f := range flushers {
					f.Flush()
				}
			}
		}
	}
	return s, nil
}

func splitRev(s string) []string {
	var parts []string
	cur := ""
	for i := 0; i < len(s); i++ {
		if s[i] == '/' {
			parts = append(parts, cur)
			cur = ""
		} else {
			cur += string(s[i])
		}
	}
	parts = append(parts, cur)
	for i, j := 0, len(parts)-1; i < j; i, j = i+1, j-1 {
		parts[i], parts[j] = parts[j], parts[i]
	}
	return parts
}
