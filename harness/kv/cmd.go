package kv

import (
	"bufio"
	"encoding/json"
	"flag"
	"fmt"
	"os"
	"sort"
	"strings"
	"sync"
	"time"

	"verifharness/replay"
)

// The models of the family print two kinds of lines (specs/kv/KV.tla, "emission"):
//   {"pre": rawkey, "act": {...}, "post": rawkey}         one per explored transition
//   {"key": rawkey, "state": abstract, "obs": observable} one per distinct state
// LoadJoined joins them: Pre/Post become the abstract states, Obs what the read API must show after the step.
func LoadJoined(path string) (edges []replay.Edge, nstates int, err error) {
	f, err := os.Open(path)
	if err != nil {
		return nil, 0, err
	}
	defer f.Close()
	type line struct {
		Pre   json.RawMessage        `json:"pre"`
		Act   map[string]interface{} `json:"act"`
		Post  json.RawMessage        `json:"post"`
		Key   json.RawMessage        `json:"key"`
		State interface{}            `json:"state"`
		Obs   interface{}            `json:"obs"`
	}
	type st struct{ state, obs interface{} }
	states := map[string]st{}
	type rawEdge struct {
		pre, post string
		act       map[string]interface{}
	}
	var raws []rawEdge
	canon := func(r json.RawMessage) string {
		var v interface{}
		json.Unmarshal(r, &v)
		b, _ := json.Marshal(v)
		return string(b)
	}
	sc := bufio.NewScanner(f)
	sc.Buffer(make([]byte, 1<<20), 1<<28)
	for sc.Scan() {
		if len(sc.Bytes()) == 0 {
			continue
		}
		var l line
		if err := json.Unmarshal(sc.Bytes(), &l); err != nil {
			return nil, 0, fmt.Errorf("bad line: %v", err)
		}
		if l.Key != nil {
			states[canon(l.Key)] = st{l.State, l.Obs}
		} else if l.Pre != nil {
			raws = append(raws, rawEdge{canon(l.Pre), canon(l.Post), l.Act})
		}
	}
	if err := sc.Err(); err != nil {
		return nil, 0, err
	}
	for _, r := range raws {
		p, ok1 := states[r.pre]
		q, ok2 := states[r.post]
		if !ok1 || !ok2 {
			return nil, 0, fmt.Errorf("edge refers to a state that TLC did not print (pre known=%v post known=%v, op %v)", ok1, ok2, r.act["op"])
		}
		edges = append(edges, replay.Edge{Pre: p.state, Act: r.act, Post: q.state, Obs: q.obs})
	}
	return edges, len(states), nil
}

// CmdReplay: vh kvreplay -spec kv|fl|tb -conf conf.json -adapters a,b,c [-walks N -len L -par P] edges.ndjson
// prints {"reports": {adapter: report}, "edges": n, "states": n, ...}
func CmdReplay(args []string, seed int64) int {
	fs := flag.NewFlagSet("kvreplay", flag.ExitOnError)
	spec := fs.String("spec", "kv", "kv | fl | tb")
	confPath := fs.String("conf", "", "observation plan (KVCONF line of the TLC run)")
	adapters := fs.String("adapters", "", "comma separated adapter names")
	walks := fs.Int("walks", 50, "random walks per adapter")
	wlen := fs.Int("len", 60, "steps per walk")
	par := fs.Int("par", 4, "adapters replayed concurrently")
	fs.Parse(args)
	if fs.NArg() < 1 || *confPath == "" || *adapters == "" {
		fmt.Fprintln(os.Stderr, "usage: vh kvreplay -spec kv|fl|tb -conf conf.json -adapters a,b [-walks N -len L -par P] edges.ndjson")
		return 2
	}
	conf, err := loadConf(*confPath)
	if err != nil {
		fmt.Fprintln(os.Stderr, err)
		return 2
	}
	edges, nstates, err := LoadJoined(fs.Arg(0))
	if err != nil {
		fmt.Fprintln(os.Stderr, err)
		return 2
	}
	dir, err := os.MkdirTemp(".", "kvdb-")
	if err != nil {
		fmt.Fprintln(os.Stderr, err)
		return 2
	}
	env := &Env{Conf: conf, Dir: dir}
	defer os.RemoveAll(dir)
	defer env.CloseAll()

	var ads []replay.Adapter
	extras := map[string]func() interface{}{}
	for _, name := range strings.Split(*adapters, ",") {
		a, extra, err := makeAdapter(env, *spec, name)
		if err != nil {
			fmt.Fprintln(os.Stderr, err)
			env.CloseAll()
			os.RemoveAll(dir)
			return 2
		}
		ads = append(ads, a)
		if extra != nil {
			extras[a.Name] = extra
		}
	}
	reports := map[string]*replay.Report{}
	walls := map[string]float64{}
	var mu sync.Mutex
	var wg sync.WaitGroup
	sem := make(chan struct{}, *par)
	for i, a := range ads {
		wg.Add(1)
		go func(i int, a replay.Adapter) {
			defer wg.Done()
			sem <- struct{}{}
			defer func() { <-sem }()
			t := time.Now()
			rep := replay.Run(a, edges, replay.Options{Walks: *walks, WalkLen: *wlen, Seed: seed*1000 + int64(i)})
			mu.Lock()
			reports[a.Name] = rep
			walls[a.Name] = time.Since(t).Seconds()
			mu.Unlock()
		}(i, a)
	}
	wg.Wait()
	out := map[string]interface{}{"reports": reports, "edges": len(edges), "states": nstates, "wall_s": walls,
		"stats": env.AllStats()}
	ex := map[string]interface{}{}
	names := make([]string, 0, len(extras))
	for n := range extras {
		names = append(names, n)
	}
	sort.Strings(names)
	for _, n := range names {
		ex[n] = extras[n]()
	}
	if len(ex) > 0 {
		out["extra"] = ex
	}
	json.NewEncoder(os.Stdout).Encode(out)
	return 0
}

// makeAdapter: adapter names are "<x>:<y>"; their meaning depends on the model.
func makeAdapter(env *Env, spec, name string) (replay.Adapter, func() interface{}, error) {
	i := strings.Index(name, ":")
	if i < 0 {
		return replay.Adapter{}, nil, fmt.Errorf("bad adapter name %q", name)
	}
	x, y := name[:i], name[i+1:]
	switch spec {
	case "kv":
		return KVAdapter(env, x, y), nil, nil
	case "fl":
		return FlushableAdapter(env, x, y), nil, nil
	case "tb":
		a, extra := TableAdapter(env, x, y)
		return a, extra, nil
	}
	return replay.Adapter{}, nil, fmt.Errorf("unknown model %q", spec)
}
