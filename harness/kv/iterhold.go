package kv

import (
	"bufio"
	"encoding/json"
	"fmt"
	"math/rand"
	"os"
	"strconv"

	"github.com/Fantom-foundation/lachesis-base/kvdb"
	"github.com/Fantom-foundation/lachesis-base/kvdb/flushable"
)

// CmdIterHold: vh kviter <scenarios> <out.ndjson>
// Records what iterators of a flushable store yield while they are held open across writes, flushes and
// drops (pattern T). The trace is judged by specs/kv/FlushableIter.tla; nothing is decided here.
func CmdIterHold(args []string, seed int64) int {
	if len(args) < 2 {
		fmt.Fprintln(os.Stderr, "usage: vh kviter <scenarios> <out.ndjson>")
		return 2
	}
	n, err := strconv.Atoi(args[0])
	if err != nil {
		fmt.Fprintln(os.Stderr, err)
		return 2
	}
	f, err := os.Create(args[1])
	if err != nil {
		fmt.Fprintln(os.Stderr, err)
		return 2
	}
	defer f.Close()
	w := bufio.NewWriter(f)
	defer w.Flush()
	dir, err := os.MkdirTemp(".", "kvdb-")
	if err != nil {
		fmt.Fprintln(os.Stderr, err)
		return 2
	}
	env := &Env{Dir: dir}
	defer os.RemoveAll(dir)
	defer env.CloseAll()
	raws := map[string]*rawDB{}
	for _, b := range []string{"mem", "ldb", "peb"} {
		raws[b] = env.newRaw(b, "iter")
	}
	rnd := rand.New(rand.NewSource(seed))
	stats := map[string]int{}
	for s := 0; s < n; s++ {
		kind := []string{"mem", "ldb", "peb", "mem2"}[s%4]
		if err := iterScenario(rnd, raws, kind, w, stats); err != nil {
			fmt.Fprintln(os.Stderr, err)
			return 2
		}
		stats["scenarios"]++
	}
	json.NewEncoder(os.Stdout).Encode(stats)
	return 0
}

var iterAlphabet = []byte{0x00, 'a', 'b', 0xff}

func rndKey(r *rand.Rand, maxLen int) []byte {
	n := r.Intn(maxLen + 1)
	k := make([]byte, n)
	for i := range k {
		k[i] = iterAlphabet[r.Intn(len(iterAlphabet))]
	}
	return k
}

func rndVal(r *rand.Rand) []byte {
	return [][]byte{{}, []byte("1"), []byte("2")}[r.Intn(3)]
}

type heldIter struct {
	it kvdb.Iterator
}

func iterScenario(rnd *rand.Rand, raws map[string]*rawDB, kind string, w *bufio.Writer, stats map[string]int) (err error) {
	backend := kind
	if kind == "mem2" {
		backend = "mem"
	}
	db, err := raws[backend].get()
	if err != nil {
		return err
	}
	emit := func(m map[string]interface{}) {
		b, _ := json.Marshal(m)
		w.Write(b)
		w.WriteByte('\n')
		stats["lines"]++
	}
	// underlying content, written directly
	under := []interface{}{}
	seen := map[string]bool{}
	for i := rnd.Intn(6); i > 0; i-- {
		k, v := rndKey(rnd, 2), rndVal(rnd)
		if seen[string(k)] {
			continue
		}
		seen[string(k)] = true
		if err := db.Put(k, v); err != nil {
			return err
		}
		under = append(under, []interface{}{ints(k), string(v)})
	}
	var fl kvdb.FlushableKVStore = flushable.Wrap(db)
	if kind == "mem2" {
		fl = flushable.Wrap(fl) // flushable over flushable: the parent iterator is itself a merged iterator
	}
	emit(map[string]interface{}{"op": "reset", "under": under, "backend": kind})
	held := map[int]*heldIter{}
	defer func() {
		for _, h := range held {
			h.it.Release()
		}
		if p := recover(); p != nil {
			emit(map[string]interface{}{"op": "panic", "msg": fmt.Sprint(p)})
			stats["panics"]++
			err = nil
		}
	}()
	write := func() {
		k := rndKey(rnd, 2)
		if rnd.Intn(3) == 0 {
			fl.Delete(k)
			emit(map[string]interface{}{"op": "del", "k": ints(k)})
		} else {
			v := rndVal(rnd)
			fl.Put(k, v)
			emit(map[string]interface{}{"op": "put", "k": ints(k), "v": string(v)})
		}
	}
	for i := rnd.Intn(5); i > 0; i-- {
		write()
	}
	steps := 12 + rnd.Intn(20)
	for s := 0; s < steps; s++ {
		c := rnd.Intn(20)
		if len(held) == 0 && c < 11 {
			c = 0 // nothing to advance or release: open an iterator
		} else if len(held) == 3 && c < 3 {
			c = 5
		}
		switch {
		case c < 3:
			id := 1
			for held[id] != nil {
				id++
			}
			prefix, start := rndKey(rnd, 1), rndKey(rnd, 1)
			if rnd.Intn(3) == 0 {
				prefix = nil
			}
			if rnd.Intn(2) == 0 {
				start = nil
			}
			held[id] = &heldIter{it: fl.NewIterator(prefix, start)}
			emit(map[string]interface{}{"op": "iter", "id": id, "prefix": ints(prefix), "start": ints(start)})
			stats["iterators"]++
		case c < 10:
			id := pickID(rnd, held)
			h := held[id]
			ok := h.it.Next()
			if ok {
				emit(map[string]interface{}{"op": "next", "id": id, "ok": true, "k": ints(h.it.Key()), "v": string(h.it.Value())})
				stats["yields"]++
			} else {
				emit(map[string]interface{}{"op": "next", "id": id, "ok": false, "k": []int{}, "v": ""})
				if e := h.it.Error(); e != nil {
					emit(map[string]interface{}{"op": "itererror", "id": id, "msg": e.Error()})
				}
			}
		case c < 11:
			id := pickID(rnd, held)
			held[id].it.Release()
			delete(held, id)
			emit(map[string]interface{}{"op": "release", "id": id})
		case c < 13:
			if err := fl.Flush(); err != nil {
				return err
			}
			emit(map[string]interface{}{"op": "flush"})
			if len(held) > 0 {
				stats["flush_under_iterator"]++
			}
		case c < 14:
			fl.DropNotFlushed()
			emit(map[string]interface{}{"op": "drop"})
			if len(held) > 0 {
				stats["drop_under_iterator"]++
			}
		case c < 15:
			// a batch write: logged operation by operation (Write applies them in order under one lock)
			b := fl.NewBatch()
			var ops []map[string]interface{}
			for i := 1 + rnd.Intn(3); i > 0; i-- {
				k := rndKey(rnd, 2)
				if rnd.Intn(3) == 0 {
					b.Delete(k)
					ops = append(ops, map[string]interface{}{"op": "del", "k": ints(k)})
				} else {
					v := rndVal(rnd)
					b.Put(k, v)
					ops = append(ops, map[string]interface{}{"op": "put", "k": ints(k), "v": string(v)})
				}
			}
			if err := b.Write(); err != nil {
				return err
			}
			for _, o := range ops {
				emit(o)
			}
			if len(held) > 0 {
				stats["writes_under_iterator"] += len(ops)
			}
		default:
			write()
			if len(held) > 0 {
				stats["writes_under_iterator"]++
			}
		}
	}
	return nil
}

func pickID(rnd *rand.Rand, held map[int]*heldIter) int {
	ids := []int{}
	for id := 1; id <= 3; id++ {
		if held[id] != nil {
			ids = append(ids, id)
		}
	}
	return ids[rnd.Intn(len(ids))]
}
