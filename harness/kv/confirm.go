package kv

import (
	"encoding/json"
	"flag"
	"fmt"
	"os"
	"sort"

	"verifharness/replay"
)

// CmdConfirm: vh kvconfirm -spec kv|fl|tb -conf conf.json cases.json
// cases = [{"adapter": name, "mismatch": <replay.Mismatch as reported by kvreplay>}, ...]
// Every reported mismatch is re-executed 14 times in this fresh process on fresh databases: the recorded path of
// the walk (if any) and then the offending transition, from a rebuilt pre-state.  Prints, per case, whether
// the real code contradicted the specification again ("again": n of 14 attempts).  DESIGN.md section 2: a violation
// must reproduce on an immediate second run of the same scenario.
func CmdConfirm(args []string) int {
	fs := flag.NewFlagSet("kvconfirm", flag.ExitOnError)
	spec := fs.String("spec", "kv", "kv | fl | tb")
	confPath := fs.String("conf", "", "observation plan")
	fs.Parse(args)
	if fs.NArg() < 1 || *confPath == "" {
		fmt.Fprintln(os.Stderr, "usage: vh kvconfirm -spec kv|fl|tb -conf conf.json cases.json")
		return 2
	}
	conf, err := loadConf(*confPath)
	if err != nil {
		fmt.Fprintln(os.Stderr, err)
		return 2
	}
	raw, err := os.ReadFile(fs.Arg(0))
	if err != nil {
		fmt.Fprintln(os.Stderr, err)
		return 2
	}
	var cases []struct {
		Adapter  string          `json:"adapter"`
		Mismatch replay.Mismatch `json:"mismatch"`
	}
	if err := json.Unmarshal(raw, &cases); err != nil {
		fmt.Fprintln(os.Stderr, err)
		return 2
	}
	dir, err := os.MkdirTemp(".", "kvcf-")
	if err != nil {
		fmt.Fprintln(os.Stderr, err)
		return 2
	}
	env := &Env{Conf: conf, Dir: dir}
	defer os.RemoveAll(dir)
	defer env.CloseAll()
	ads := map[string]replay.Adapter{}
	out := make([]map[string]interface{}, len(cases))
	for i, c := range cases {
		a, ok := ads[c.Adapter]
		if !ok {
			var err error
			a, _, err = makeAdapter(env, *spec, c.Adapter)
			if err != nil {
				fmt.Fprintln(os.Stderr, err)
				return 2
			}
			ads[c.Adapter] = a
		}
		again := 0
		var what []string
		for try := 0; try < 14; try++ { // 14 consecutive instances cover every table-prefix / via-batch variant of the adapters
			if w := rerun(a, c.Mismatch); w != "" {
				again++
				what = append(what, w)
			}
		}
		out[i] = map[string]interface{}{"adapter": c.Adapter, "sig": c.Mismatch.Sig, "again": again, "what": what}
	}
	json.NewEncoder(os.Stdout).Encode(out)
	return 0
}

// rerun executes path + edge of a mismatch on a fresh instance; returns "" if everything conformed this time.
func rerun(a replay.Adapter, m replay.Mismatch) (what string) {
	edges := append(append([]replay.Edge{}, m.Path...), m.Edge)
	inst, err := a.New(edges[0].Pre)
	if err != nil {
		return "new: " + err.Error()
	}
	defer inst.Close()
	defer func() {
		if p := recover(); p != nil {
			what = fmt.Sprint("panic: ", p)
		}
	}()
	for i, e := range edges {
		o, err := inst.Apply(e.Act)
		if err != nil {
			return fmt.Sprintf("step %d/%d %v: error %v", i+1, len(edges), e.Act["op"], err)
		}
		keys := make([]string, 0, len(o))
		for k := range o {
			keys = append(keys, k)
		}
		sort.Strings(keys)
		for _, k := range keys {
			if !replay.Equal(e.Act[k], o[k]) {
				return fmt.Sprintf("step %d/%d %v: output %s differs", i+1, len(edges), e.Act["op"], k)
			}
		}
		want := e.Post
		if e.Obs != nil {
			want = e.Obs
		}
		if !replay.Equal(want, inst.Project()) {
			return fmt.Sprintf("step %d/%d %v: projected state differs", i+1, len(edges), e.Act["op"])
		}
	}
	return ""
}
