package kv

import (
	"fmt"

	"verifharness/replay"

	"github.com/Fantom-foundation/lachesis-base/kvdb"
)

// core holds what every model of the family has: a store, at most one batch object, snapshot slots.
type core struct {
	env      *Env
	st       kvdb.Store
	batch    kvdb.Batch
	snaps    []kvdb.Snapshot
	tick     func()
	replayTo kvdb.Writer
	// viaBatch: pre-state content is written through the store's ONE long-lived batch object (queue, Write,
	// Reset) instead of direct Put/Delete, so that whatever the batch keeps after Reset is in play afterwards
	viaBatch bool
	stats    *Stats // coverage counters of the adapter (vacuity guards only)
}

// opsConsistent: does every key named by the batch hold, in `content`, the value of the last operation naming it?
// (only decides in which order a pre-state with a written batch is assembled)
func opsConsistent(ops []interface{}, content [][2]string, absent string) bool {
	have := map[string]string{}
	for _, p := range content {
		have[p[0]] = p[1]
	}
	last := map[string]string{}
	for _, o := range ops {
		m := obj(o)
		if str(m["t"]) == "put" {
			last[str(m["k"])] = str(m["v"])
		} else {
			last[str(m["k"])] = absent
		}
	}
	for k, v := range last {
		h, ok := have[k]
		if !ok {
			h = "~"
		}
		if h != v {
			return false
		}
	}
	return true
}

// setVia makes the content of the store equal to want, through the long-lived batch when viaBatch is set.
func (c *core) setVia(want [][2]string) error {
	if !c.viaBatch {
		return setContent(c.st, want)
	}
	keep := map[string]bool{}
	for _, p := range want {
		keep[string(decKey(p[0]))] = true
	}
	c.ensureBatch()
	for _, k := range allKeys(c.st) {
		if !keep[string(k)] {
			kb := spare(k)
			err := c.batch.Delete(kb)
			scribble(kb)
			if err != nil {
				return err
			}
		}
	}
	for _, p := range want {
		kb, vb := spare(decKey(p[0])), spare(decVal(p[1]))
		err := c.batch.Put(kb, vb)
		scribble(kb)
		scribble(vb)
		if err != nil {
			return err
		}
	}
	if err := c.batch.Write(); err != nil {
		return err
	}
	c.batch.Reset()
	return nil
}

func (c *core) ensureBatch() {
	if c.batch == nil {
		if c.stats == nil {
			c.stats = &Stats{}
		}
		c.batch = &trackedBatch{Batch: c.st.NewBatch(), st: c.stats}
	}
}

// noteFlushed: the store's overlay has been flushed or dropped (coverage bookkeeping only)
func (c *core) noteFlushed() {
	if tb, ok := c.batch.(*trackedBatch); ok {
		tb.flushed()
	}
}

// noteRead: the whole store has just been projected (coverage bookkeeping only)
func (c *core) noteRead() {
	if tb, ok := c.batch.(*trackedBatch); ok && tb.reusedUnflushed {
		c.stats.ReadsAfterReuseUnflushed++
	}
}

func (c *core) ensureSlots(n int) {
	for len(c.snaps) < n {
		c.snaps = append(c.snaps, nil)
	}
}

func (c *core) releaseAll() {
	for i, s := range c.snaps {
		if s != nil {
			s.Release()
			c.snaps[i] = nil
		}
	}
}

// applyCommon executes the actions shared by KV.tla and Flushable.tla; done=false if the op is not one of them.
func (c *core) applyCommon(act map[string]interface{}) (done bool, err error) {
	// keys and values are handed over in caller-owned buffers with spare capacity that are overwritten as
	// soon as the call returns: a layer that keeps the slice instead of copying it becomes visible
	k := spare(decKey(str(act["k"])))
	v := spare(decVal(str(act["v"])))
	defer scribble(k)
	defer scribble(v)
	switch str(act["op"]) {
	case "put":
		err = c.st.Put(k, v)
		c.tick()
	case "del":
		err = c.st.Delete(k)
		c.tick()
	case "bput":
		c.ensureBatch()
		err = c.batch.Put(k, v)
	case "bdel":
		c.ensureBatch()
		err = c.batch.Delete(k)
	case "bwrite":
		c.ensureBatch()
		err = c.batch.Write()
		c.tick()
	case "breset":
		c.ensureBatch()
		c.batch.Reset()
	case "breplay":
		c.ensureBatch()
		if str(act["target"]) == "store" {
			err = c.batch.Replay(c.replayTo)
		} else {
			b2 := c.st.NewBatch()
			if err = c.batch.Replay(b2); err == nil {
				err = b2.Write()
			}
		}
		c.tick()
	case "snap":
		i := num(act["i"])
		c.ensureSlots(i)
		if c.snaps[i-1] != nil {
			return true, fmt.Errorf("snapshot slot %d busy", i)
		}
		c.snaps[i-1], err = c.st.GetSnapshot()
	case "release":
		i := num(act["i"])
		c.ensureSlots(i)
		if c.snaps[i-1] == nil {
			return true, fmt.Errorf("snapshot slot %d empty", i)
		}
		c.snaps[i-1].Release()
		c.snaps[i-1] = nil
	default:
		return false, nil
	}
	return true, err
}

// buildBatch queues the operations of an abstract batch on the (fresh or reset) batch object.
func (c *core) buildBatch(ops []interface{}) error {
	if len(ops) == 0 {
		return nil
	}
	c.ensureBatch()
	for _, o := range ops {
		m := obj(o)
		var err error
		kb, vb := spare(decKey(str(m["k"]))), spare(decVal(str(m["v"])))
		if str(m["t"]) == "put" {
			err = c.batch.Put(kb, vb)
		} else {
			err = c.batch.Delete(kb)
		}
		scribble(kb)
		scribble(vb)
		if err != nil {
			return err
		}
	}
	return nil
}

func (c *core) snapsObs(n int) []interface{} {
	c.ensureSlots(n)
	out := make([]interface{}, len(c.snaps))
	for i, s := range c.snaps {
		if s == nil {
			out[i] = map[string]interface{}{"live": false}
		} else {
			out[i] = map[string]interface{}{"live": true, "view": readerObs(s, c.env.Conf)}
		}
	}
	return out
}

// ---- KV.tla adapter: one stacking of wrappers over one backend (C23) ----

type kvInst struct {
	core
	nsnaps int
}

func (in *kvInst) Close() { in.releaseAll() }

// build establishes an abstract state of KV.tla on the empty store, through public calls only.
func (in *kvInst) build(state map[string]interface{}) error {
	snaps := list(state["snaps"])
	in.nsnaps = len(snaps)
	in.ensureSlots(in.nsnaps)
	bw, _ := state["bw"].(bool)
	// a written batch whose effect is still what the store holds is written last (the natural history);
	// otherwise it is written first and the store brought to its content afterwards
	late := bw && opsConsistent(list(state["batch"]), pairs(state["store"]), "~")
	if bw && !late {
		if err := in.buildBatch(list(state["batch"])); err != nil {
			return err
		}
		in.ensureBatch()
		if err := in.batch.Write(); err != nil {
			return err
		}
	}
	set := in.setVia
	if bw && !late {
		set = func(want [][2]string) error { return setContent(in.st, want) } // the written batch stays untouched
	}
	for i, s := range snaps {
		m := obj(s)
		if live, _ := m["live"].(bool); live {
			if err := set(pairs(m["view"])); err != nil {
				return err
			}
			sn, err := in.st.GetSnapshot()
			if err != nil {
				return err
			}
			in.snaps[i] = sn
		}
	}
	if bw && !late {
		// the written batch object must stay as it is: no further use of it
		if err := setContent(in.st, pairs(state["store"])); err != nil {
			return err
		}
		return nil
	}
	if err := in.setVia(pairs(state["store"])); err != nil {
		return err
	}
	if err := in.buildBatch(list(state["batch"])); err != nil {
		return err
	}
	if late {
		in.ensureBatch()
		return in.batch.Write()
	}
	return nil
}

func (in *kvInst) Apply(act map[string]interface{}) (map[string]interface{}, error) {
	done, err := in.applyCommon(act)
	if done {
		return map[string]interface{}{}, err
	}
	switch str(act["op"]) {
	case "clear":
		in.releaseAll()
		if in.batch != nil {
			in.batch.Reset()
		}
		return map[string]interface{}{}, wipe(in.st)
	case "goto":
		return map[string]interface{}{}, in.build(obj(act["state"]))
	}
	return nil, fmt.Errorf("unknown op %v", act["op"])
}

func (in *kvInst) Project() interface{} {
	return map[string]interface{}{
		"store": readerObs(in.st, in.env.Conf),
		"snaps": in.snapsObs(in.nsnaps),
	}
}

// KVAdapter: name = "<backend>:<layers>", e.g. "ldb:table/flushable".
func KVAdapter(env *Env, backend, layers string) replay.Adapter {
	name := backend + ":" + layers
	raw := env.newRaw(backend, name)
	stats := env.newStats(name)
	n := 0
	return replay.Adapter{Name: name, New: func(pre interface{}) (replay.Inst, error) {
		db, err := raw.get()
		if err != nil {
			return nil, err
		}
		n++
		st, err := buildStack(layers, db, n)
		if err != nil {
			return nil, err
		}
		in := &kvInst{core: core{env: env, st: st.top, tick: st.tick, replayTo: st.replayTo, viaBatch: n%2 == 0, stats: stats}}
		if err := in.build(obj(pre)); err != nil {
			return nil, fmt.Errorf("cannot establish pre-state: %v", err)
		}
		return in, nil
	}}
}
