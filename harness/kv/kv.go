package kv

import (
	"fmt"

	"verifharness/replay"

	"github.com/Fantom-foundation/lachesis-base/kvdb"
)

// core holds what every model of the family has: a store, at most one batch object, snapshot slots.
type core struct {
	env      *Env
	st       kvdb.Store
	batch    kvdb.Batch
	snaps    []kvdb.Snapshot
	tick     func()
	replayTo kvdb.Writer
}

func (c *core) ensureBatch() {
	if c.batch == nil {
		c.batch = c.st.NewBatch()
	}
}

func (c *core) ensureSlots(n int) {
	for len(c.snaps) < n {
		c.snaps = append(c.snaps, nil)
	}
}

func (c *core) releaseAll() {
	for i, s := range c.snaps {
		if s != nil {
			s.Release()
			c.snaps[i] = nil
		}
	}
}

// applyCommon executes the actions shared by KV.tla and Flushable.tla; done=false if the op is not one of them.
func (c *core) applyCommon(act map[string]interface{}) (done bool, err error) {
	// keys and values are handed over in caller-owned buffers with spare capacity that are overwritten as
	// soon as the call returns: a layer that keeps the slice instead of copying it becomes visible
	k := spare(decKey(str(act["k"])))
	v := spare(decVal(str(act["v"])))
	defer scribble(k)
	defer scribble(v)
	switch str(act["op"]) {
	case "put":
		err = c.st.Put(k, v)
		c.tick()
	case "del":
		err = c.st.Delete(k)
		c.tick()
	case "bput":
		c.ensureBatch()
		err = c.batch.Put(k, v)
	case "bdel":
		c.ensureBatch()
		err = c.batch.Delete(k)
	case "bwrite":
		c.ensureBatch()
		err = c.batch.Write()
		c.tick()
	case "breset":
		c.ensureBatch()
		c.batch.Reset()
	case "breplay":
		c.ensureBatch()
		if str(act["target"]) == "store" {
			err = c.batch.Replay(c.replayTo)
		} else {
			b2 := c.st.NewBatch()
			if err = c.batch.Replay(b2); err == nil {
				err = b2.Write()
			}
		}
		c.tick()
	case "snap":
		i := num(act["i"])
		c.ensureSlots(i)
		if c.snaps[i-1] != nil {
			return true, fmt.Errorf("snapshot slot %d busy", i)
		}
		c.snaps[i-1], err = c.st.GetSnapshot()
	case "release":
		i := num(act["i"])
		c.ensureSlots(i)
		if c.snaps[i-1] == nil {
			return true, fmt.Errorf("snapshot slot %d empty", i)
		}
		c.snaps[i-1].Release()
		c.snaps[i-1] = nil
	default:
		return false, nil
	}
	return true, err
}

// buildBatch queues the operations of an abstract batch on the (fresh or reset) batch object.
func (c *core) buildBatch(ops []interface{}) error {
	if len(ops) == 0 {
		return nil
	}
	c.ensureBatch()
	for _, o := range ops {
		m := obj(o)
		var err error
		kb, vb := spare(decKey(str(m["k"]))), spare(decVal(str(m["v"])))
		if str(m["t"]) == "put" {
			err = c.batch.Put(kb, vb)
		} else {
			err = c.batch.Delete(kb)
		}
		scribble(kb)
		scribble(vb)
		if err != nil {
			return err
		}
	}
	return nil
}

func (c *core) snapsObs(n int) []interface{} {
	c.ensureSlots(n)
	out := make([]interface{}, len(c.snaps))
	for i, s := range c.snaps {
		if s == nil {
			out[i] = map[string]interface{}{"live": false}
		} else {
			out[i] = map[string]interface{}{"live": true, "view": readerObs(s, c.env.Conf)}
		}
	}
	return out
}

// ---- KV.tla adapter: one stacking of wrappers over one backend (C23) ----

type kvInst struct {
	core
	nsnaps int
}

func (in *kvInst) Close() { in.releaseAll() }

// build establishes an abstract state of KV.tla on the empty store, through public calls only.
func (in *kvInst) build(state map[string]interface{}) error {
	snaps := list(state["snaps"])
	in.nsnaps = len(snaps)
	in.ensureSlots(in.nsnaps)
	bw, _ := state["bw"].(bool)
	if bw {
		// a written batch: queue, write, then bring the store to its content below
		if err := in.buildBatch(list(state["batch"])); err != nil {
			return err
		}
		in.ensureBatch()
		if err := in.batch.Write(); err != nil {
			return err
		}
	}
	for i, s := range snaps {
		m := obj(s)
		if live, _ := m["live"].(bool); live {
			if err := setContent(in.st, pairs(m["view"])); err != nil {
				return err
			}
			sn, err := in.st.GetSnapshot()
			if err != nil {
				return err
			}
			in.snaps[i] = sn
		}
	}
	if err := setContent(in.st, pairs(state["store"])); err != nil {
		return err
	}
	if !bw {
		return in.buildBatch(list(state["batch"]))
	}
	return nil
}

func (in *kvInst) Apply(act map[string]interface{}) (map[string]interface{}, error) {
	done, err := in.applyCommon(act)
	if done {
		return map[string]interface{}{}, err
	}
	switch str(act["op"]) {
	case "clear":
		in.releaseAll()
		if in.batch != nil {
			in.batch.Reset()
		}
		return map[string]interface{}{}, wipe(in.st)
	case "goto":
		return map[string]interface{}{}, in.build(obj(act["state"]))
	}
	return nil, fmt.Errorf("unknown op %v", act["op"])
}

func (in *kvInst) Project() interface{} {
	return map[string]interface{}{
		"store": readerObs(in.st, in.env.Conf),
		"snaps": in.snapsObs(in.nsnaps),
	}
}

// KVAdapter: name = "<backend>:<layers>", e.g. "ldb:table/flushable".
func KVAdapter(env *Env, backend, layers string) replay.Adapter {
	name := backend + ":" + layers
	raw := env.newRaw(backend, name)
	n := 0
	return replay.Adapter{Name: name, New: func(pre interface{}) (replay.Inst, error) {
		db, err := raw.get()
		if err != nil {
			return nil, err
		}
		n++
		st, err := buildStack(layers, db, n)
		if err != nil {
			return nil, err
		}
		in := &kvInst{core: core{env: env, st: st.top, tick: st.tick, replayTo: st.replayTo}}
		if err := in.build(obj(pre)); err != nil {
			return nil, fmt.Errorf("cannot establish pre-state: %v", err)
		}
		return in, nil
	}}
}
