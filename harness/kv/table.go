package kv

import (
	"fmt"
	"sync"

	"verifharness/replay"

	"github.com/Fantom-foundation/lachesis-base/kvdb"
	"github.com/Fantom-foundation/lachesis-base/kvdb/table"
)

// ---- recorder: a kvdb.Store that notes the raw keys handed to the store underneath and Compact ranges ----

type recorder struct {
	kvdb.Store
	writes   []string
	compacts []compactCall
}

type compactCall struct {
	start, limit []byte
}

func (r *recorder) Put(k, v []byte) error {
	r.writes = append(r.writes, encKey(k))
	return r.Store.Put(k, v)
}

func (r *recorder) Delete(k []byte) error {
	r.writes = append(r.writes, encKey(k))
	return r.Store.Delete(k)
}

func (r *recorder) Compact(start, limit []byte) error {
	r.compacts = append(r.compacts, compactCall{cp(start), cp(limit)})
	return r.Store.Compact(start, limit)
}

func (r *recorder) NewBatch() kvdb.Batch {
	return &recBatch{Batch: r.Store.NewBatch(), rec: r}
}

func cp(b []byte) []byte {
	if b == nil {
		return nil
	}
	return append([]byte{}, b...)
}

// recBatch: the keys queued in a batch reach the store when the batch is written
type recBatch struct {
	kvdb.Batch
	rec  *recorder
	keys []string
}

func (b *recBatch) Put(k, v []byte) error {
	b.keys = append(b.keys, encKey(k))
	return b.Batch.Put(k, v)
}

func (b *recBatch) Delete(k []byte) error {
	b.keys = append(b.keys, encKey(k))
	return b.Batch.Delete(k)
}

func (b *recBatch) Write() error {
	b.rec.writes = append(b.rec.writes, b.keys...)
	return b.Batch.Write()
}

func (b *recBatch) Reset() {
	b.keys = nil
	b.Batch.Reset()
}

// ---- Table.tla adapter (C24) ----

type tableCfg struct {
	P1     string `json:"p1"`
	P2     string `json:"p2"`
	Nested bool   `json:"nested"`
}

// CompactObs is one observed Compact(nil, nil) through a table: the table's effective prefix and the
// range the underlying store was asked for. Judged by specs/kv/TableCompact.tla, not here.
type CompactObs struct {
	Op       string `json:"op"`
	Cfg      int    `json:"cfg"`
	T        int    `json:"t"`
	Backend  string `json:"backend"`
	Prefix   []int  `json:"prefix"`
	StartNil bool   `json:"startnil"`
	Start    []int  `json:"start"`
	LimitNil bool   `json:"limitnil"`
	Limit    []int  `json:"limit"`
	Count    int    `json:"count"`
}

type compactLog struct {
	mu   sync.Mutex
	seen map[string]*CompactObs
	keys []string
}

func ints(b []byte) []int {
	out := make([]int, len(b))
	for i, c := range b {
		out[i] = int(c)
	}
	return out
}

func (l *compactLog) add(o CompactObs) {
	l.mu.Lock()
	defer l.mu.Unlock()
	k := fmt.Sprint(o.Cfg, o.T, o.Prefix, o.StartNil, o.Start, o.LimitNil, o.Limit)
	if p, ok := l.seen[k]; ok {
		p.Count++
		return
	}
	o.Count = 1
	l.seen[k] = &o
	l.keys = append(l.keys, k)
}

type tbInst struct {
	env     *Env
	backend string
	inner   kvdb.Store // the backend itself (harness access, not recorded)
	rec     *recorder
	cfgID   int
	cfg     tableCfg
	tables  [2]*table.Table
	batch   kvdb.Batch
	snap    kvdb.Snapshot
	snapT   int
	clog    *compactLog
	stats   *Stats
}

// nestedNoncommuting: table 2 was created by tables[0].NewTable(own) and parent+own != own+parent
func (in *tbInst) nestedNoncommuting() bool {
	if !in.cfg.Nested {
		return false
	}
	p1, p2 := in.cfg.P1, in.cfg.P2
	own := p2[len(p1):]
	return p1+own != own+p1
}

func (in *tbInst) Close() {
	if in.snap != nil {
		in.snap.Release()
		in.snap = nil
	}
}

func (in *tbInst) prefix(t int) string {
	if t == 1 {
		return in.cfg.P1
	}
	return in.cfg.P2
}

func (in *tbInst) setup(cfgID int) error {
	cfgs := in.env.Conf.Cfgs
	if cfgID < 1 || cfgID > len(cfgs) {
		return fmt.Errorf("unknown table configuration %d", cfgID)
	}
	in.cfgID, in.cfg = cfgID, cfgs[cfgID-1]
	in.tables[0] = table.New(in.rec, spare(decKey(in.cfg.P1)))
	if in.cfg.Nested {
		p1, p2 := decKey(in.cfg.P1), decKey(in.cfg.P2)
		if !hasPrefix(p2, p1) {
			return fmt.Errorf("nested configuration %d: %q is not an extension of %q", cfgID, in.cfg.P2, in.cfg.P1)
		}
		in.tables[1] = in.tables[0].NewTable(spare(p2[len(p1):]))
	} else {
		in.tables[1] = table.New(in.rec, spare(decKey(in.cfg.P2)))
	}
	return nil
}

func (in *tbInst) buildBatch(owner int, ops []interface{}) error {
	if owner == 0 {
		return nil
	}
	in.batch = in.tables[owner-1].NewBatch()
	for _, o := range ops {
		m := obj(o)
		var err error
		if str(m["t"]) == "put" {
			err = in.batch.Put(decKey(str(m["k"])), decVal(str(m["v"])))
		} else {
			err = in.batch.Delete(decKey(str(m["k"])))
		}
		if err != nil {
			return err
		}
	}
	return nil
}

// build establishes an abstract state of Table.tla; the underlying store is written directly.
func (in *tbInst) build(state map[string]interface{}) error {
	owner := num(state["bt"])
	bw, _ := state["bw"].(bool)
	if bw {
		if err := in.buildBatch(owner, list(state["batch"])); err != nil {
			return err
		}
		if err := in.batch.Write(); err != nil {
			return err
		}
	}
	sn := obj(state["snap"])
	if live, _ := sn["live"].(bool); live {
		if err := setContent(in.inner, pairs(sn["view"])); err != nil {
			return err
		}
		t := num(sn["t"])
		s, err := in.tables[t-1].GetSnapshot()
		if err != nil {
			return err
		}
		in.snap, in.snapT = s, t
	}
	if err := setContent(in.inner, pairs(state["raw"])); err != nil {
		return err
	}
	if !bw {
		return in.buildBatch(owner, list(state["batch"]))
	}
	return nil
}

func (in *tbInst) Apply(act map[string]interface{}) (map[string]interface{}, error) {
	in.rec.writes = nil
	t := num(act["t"])
	k := spare(decKey(str(act["k"])))
	v := spare(decVal(str(act["v"])))
	defer scribble(k) // caller-owned buffers are reused once the call has returned
	defer scribble(v)
	var err error
	switch str(act["op"]) {
	case "tput":
		err = in.tables[t-1].Put(k, v)
	case "tdel":
		err = in.tables[t-1].Delete(k)
	case "rput":
		err = in.rec.Put(k, v)
	case "rdel":
		err = in.rec.Delete(k)
	case "tbput":
		if in.batch == nil {
			in.batch = in.tables[t-1].NewBatch()
		}
		err = in.batch.Put(k, v)
	case "tbdel":
		if in.batch == nil {
			in.batch = in.tables[t-1].NewBatch()
		}
		err = in.batch.Delete(k)
	case "tbwrite":
		err = in.batch.Write()
	case "tbreset":
		in.batch.Reset()
	case "tbdrop":
		in.batch = nil
	case "tbreplay":
		if str(act["target"]) == "store" {
			err = in.batch.Replay(in.tables[t-1])
		} else {
			b2 := in.tables[t-1].NewBatch()
			if err = in.batch.Replay(b2); err == nil {
				err = b2.Write()
			}
		}
	case "tsnap":
		in.snap, err = in.tables[t-1].GetSnapshot()
		in.snapT = t
		if in.cfg.Nested && t == 2 {
			in.stats.NestedSnapActions++
		}
	case "trelease":
		in.snap.Release()
		in.snap = nil
	case "compact":
		in.rec.compacts = nil
		err = in.tables[t-1].Compact(nil, nil)
		if len(in.rec.compacts) != 1 {
			return nil, fmt.Errorf("Compact(nil, nil) through table %d reached the underlying store %d times", t, len(in.rec.compacts))
		}
		c := in.rec.compacts[0]
		in.clog.add(CompactObs{Op: "compact", Cfg: in.cfgID, T: t, Backend: in.backend, Prefix: ints(decKey(in.prefix(t))),
			StartNil: c.start == nil, Start: ints(c.start), LimitNil: c.limit == nil, Limit: ints(c.limit)})
	case "clear":
		in.Close()
		in.batch = nil
		return map[string]interface{}{}, wipe(in.inner)
	case "goto":
		return map[string]interface{}{}, in.build(obj(act["state"]))
	default:
		return nil, fmt.Errorf("unknown op %v", act["op"])
	}
	ws := make(replay.Set, len(in.rec.writes))
	for i, w := range in.rec.writes {
		ws[i] = w
	}
	return map[string]interface{}{"writes": dedup(ws)}, err
}

// the specification gives the SET of raw keys written by a call
func dedup(s replay.Set) replay.Set {
	seen := map[string]bool{}
	out := replay.Set{}
	for _, x := range s {
		if !seen[x.(string)] {
			seen[x.(string)] = true
			out = append(out, x)
		}
	}
	return out
}

func (in *tbInst) Project() interface{} {
	var snap interface{} = map[string]interface{}{"live": false}
	if in.snap != nil {
		view := readerObs(in.snap, in.env.Conf)
		snap = map[string]interface{}{"live": true, "t": in.snapT, "view": view}
		if in.cfg.Nested && in.snapT == 2 { // coverage bookkeeping only
			in.stats.NestedSnapReads++
			if in.nestedNoncommuting() {
				in.stats.NestedNoncommSnapReads++
				for _, h := range view["has"].([]interface{}) {
					if b, ok := h.(bool); ok && b {
						in.stats.NestedNoncommSnapReadsNonEmpty++
						break
					}
				}
			}
		}
	}
	return map[string]interface{}{
		"raw":    allPairs(in.inner),
		"tables": []interface{}{readerObs(in.tables[0], in.env.Conf), readerObs(in.tables[1], in.env.Conf)},
		"snap":   snap,
	}
}

// TableAdapter: name "rec:<backend>": two tables over a recorder over the backend.
func TableAdapter(env *Env, kind, backend string) (replay.Adapter, func() interface{}) {
	name := kind + ":" + backend
	raw := env.newRaw(backend, name)
	clog := &compactLog{seen: map[string]*CompactObs{}}
	stats := env.newStats(name)
	extra := func() interface{} {
		out := []*CompactObs{}
		for _, k := range clog.keys {
			out = append(out, clog.seen[k])
		}
		return out
	}
	return replay.Adapter{Name: name, New: func(pre interface{}) (replay.Inst, error) {
		db, err := raw.get()
		if err != nil {
			return nil, err
		}
		in := &tbInst{env: env, backend: backend, inner: db, rec: &recorder{Store: db}, clog: clog, stats: stats}
		st := obj(pre)
		if err := in.setup(num(st["cfg"])); err != nil {
			return nil, err
		}
		if err := in.build(st); err != nil {
			return nil, fmt.Errorf("cannot establish pre-state: %v", err)
		}
		return in, nil
	}}, extra
}
