package kv

import (
	"fmt"

	"github.com/Fantom-foundation/lachesis-base/kvdb"
)

const maxIter = 4096 // an iterator that yields more than this is reported as runaway

// iterate drains NewIterator(prefix, start) and returns [[key, value], ...] exactly as yielded.
func iterate(r kvdb.Iteratee, prefix, start []byte) []interface{} {
	out := []interface{}{}
	// caller-owned buffers with spare capacity; reused (scribbled) only after the iterator is released
	if prefix != nil {
		prefix = spare(prefix)
	}
	if start != nil {
		start = spare(start)
	}
	defer func() {
		scribble(prefix)
		scribble(start)
	}()
	it := r.NewIterator(prefix, start)
	n := 0
	for it.Next() {
		out = append(out, []interface{}{encKey(it.Key()), encVal(it.Value())})
		n++
		if n > maxIter {
			out = append(out, []interface{}{"RUNAWAY", ""})
			break
		}
	}
	if err := it.Error(); err != nil {
		out = append(out, []interface{}{"ERROR", err.Error()})
	}
	it.Release()
	return out
}

// readerObs projects everything a reader (store, snapshot, table) shows through Get / Has / NewIterator
// for the observation plan of the model; same shape as ReaderObs in specs/kv/KVDefs.tla.
func readerObs(r kvdb.IteratedReader, conf *Conf) map[string]interface{} {
	get := make([]interface{}, len(conf.Probe))
	has := make([]interface{}, len(conf.Probe))
	for i, ks := range conf.Probe {
		k := spare(decKey(ks))
		v, err := r.Get(k)
		switch {
		case err != nil:
			get[i] = "ERROR " + err.Error()
		case v == nil:
			get[i] = "~"
		default:
			get[i] = encVal(v)
			scribble(v) // the returned value belongs to the caller
		}
		scribble(k)
		k = spare(decKey(ks))
		h, err := r.Has(k)
		scribble(k)
		if err != nil {
			has[i] = "ERROR " + err.Error()
		} else {
			has[i] = h
		}
	}
	iters := make([]interface{}, len(conf.Iters))
	for i, ps := range conf.Iters {
		iters[i] = iterate(r, decArg(ps[0]), decArg(ps[1]))
	}
	return map[string]interface{}{"get": get, "has": has, "iters": iters}
}

// allPairs reads the whole content of a store in iteration order.
func allPairs(r kvdb.Iteratee) []interface{} {
	return iterate(r, nil, nil)
}

func allKeys(r kvdb.Iteratee) [][]byte {
	var ks [][]byte
	it := r.NewIterator(nil, nil)
	for it.Next() {
		ks = append(ks, append([]byte{}, it.Key()...))
		if len(ks) > maxIter {
			break
		}
	}
	it.Release()
	return ks
}

// setContent makes the content of w/r equal to the given pairs using Put/Delete only.
func setContent(st kvdb.Store, want [][2]string) error {
	keep := map[string]bool{}
	for _, p := range want {
		keep[string(decKey(p[0]))] = true
	}
	for _, k := range allKeys(st) {
		if !keep[string(k)] {
			if err := st.Delete(k); err != nil {
				return fmt.Errorf("delete %q: %v", encKey(k), err)
			}
		}
	}
	for _, p := range want {
		kb, vb := spare(decKey(p[0])), spare(decVal(p[1]))
		err := st.Put(kb, vb)
		scribble(kb)
		scribble(vb)
		if err != nil {
			return fmt.Errorf("put %q: %v", p[0], err)
		}
	}
	return nil
}

func wipe(st kvdb.Store) error {
	return setContent(st, nil)
}
