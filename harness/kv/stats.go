package kv

import (
	"github.com/Fantom-foundation/lachesis-base/kvdb"
)

// Stats are coverage counters of one adapter.  They feed vacuity guards only ("did the run exercise batch-object
// reuse / snapshots of nested tables at all?"); no verdict depends on them.
type Stats struct {
	// Put/Delete issued on a batch object that has been written and Reset before (second or later cycle)
	BatchReuseOps int `json:"batch_reuse_ops"`
	// ... while keys written by an earlier cycle of that object have not been flushed or dropped since (flushable adapters)
	BatchReuseOpsUnflushed int `json:"batch_reuse_ops_unflushed"`
	// Write of a batch object in its second or later cycle
	BatchReuseWrites int `json:"batch_reuse_writes"`
	// full projections of the store taken after a reuse operation and before the next flush/drop (flushable adapters)
	ReadsAfterReuseUnflushed int `json:"reads_after_reuse_unflushed"`
	// pre-states whose overlay was written through the batch object because the specification state says so (bprev)
	PreStatesViaSpecBatch int `json:"pre_states_via_spec_batch"`

	// Get/Has/iteration projections through GetSnapshot() of a table created with Table.NewTable (C24)
	NestedSnapReads int `json:"nested_snapshot_reads"`
	// ... where parent prefix and own prefix do not commute (parent+own != own+parent)
	NestedNoncommSnapReads int `json:"nested_noncommuting_snapshot_reads"`
	// ... and the snapshot showed at least one key
	NestedNoncommSnapReadsNonEmpty int `json:"nested_noncommuting_snapshot_reads_nonempty"`
	// snapshots of a nested table taken by a model action (tsnap) rather than while building a pre-state
	NestedSnapActions int `json:"nested_snapshot_actions"`
}

func (e *Env) newStats(name string) *Stats {
	e.mu.Lock()
	defer e.mu.Unlock()
	if e.stats == nil {
		e.stats = map[string]*Stats{}
	}
	s := &Stats{}
	e.stats[name] = s
	return s
}

// AllStats is read after all adapters have finished.
func (e *Env) AllStats() map[string]*Stats {
	e.mu.Lock()
	defer e.mu.Unlock()
	out := map[string]*Stats{}
	for k, v := range e.stats {
		out[k] = v
	}
	return out
}

// trackedBatch sits on the CALLER's side of the kvdb.Batch interface and only counts how the harness uses the
// batch object (cycles of Put.. / Write / Reset); every call is passed on unchanged.
type trackedBatch struct {
	kvdb.Batch
	st      *Stats
	ops     int  // operations queued in the current cycle
	written bool // the current cycle has been written
	cycles  int  // completed Write+Reset cycles that wrote at least one operation
	// an earlier cycle wrote keys and the owner has not flushed / dropped since
	unflushed bool
	// a reuse operation happened and the owner has not flushed / dropped since
	reusedUnflushed bool
}

func (b *trackedBatch) note() {
	b.ops++
	if b.cycles > 0 {
		b.st.BatchReuseOps++
		if b.unflushed {
			b.st.BatchReuseOpsUnflushed++
			b.reusedUnflushed = true
		}
	}
}

func (b *trackedBatch) Put(k, v []byte) error {
	b.note()
	return b.Batch.Put(k, v)
}

func (b *trackedBatch) Delete(k []byte) error {
	b.note()
	return b.Batch.Delete(k)
}

func (b *trackedBatch) Write() error {
	if b.cycles > 0 {
		b.st.BatchReuseWrites++
	}
	if b.ops > 0 {
		b.written = true
		b.unflushed = true
	}
	return b.Batch.Write()
}

func (b *trackedBatch) Reset() {
	if b.written {
		b.cycles++
	}
	b.written = false
	b.ops = 0
	b.Batch.Reset()
}

// flushed: the owner flushed or dropped its overlay
func (b *trackedBatch) flushed() {
	b.unflushed = false
	b.reusedUnflushed = false
}
