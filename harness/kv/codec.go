// Package kv is the Go side of the KV family (C22 flushable, C23 backends/wrappers, C24 tables):
// adapters that build the real kvdb store stacks in a given abstract state, apply the actions
// emitted by TLC from specs/kv/*.tla and project everything the public read API shows.
// Nothing here decides what a store should return: expected values come from the TLC edges.
package kv

import (
	"encoding/json"
	"fmt"
	"os"
	"strings"
)

// Keys travel as strings with one character per byte of the model alphabet:
// '0' = 0x00, 'a' = 'a', 'b' = 'b', 'F' = 0xff (specs/kv/Bytes.tla, Str). "~" = nil / absent.

func decKey(s string) []byte {
	out := make([]byte, 0, len(s))
	for i := 0; i < len(s); i++ {
		switch s[i] {
		case '0':
			out = append(out, 0x00)
		case 'F':
			out = append(out, 0xff)
		default:
			out = append(out, s[i])
		}
	}
	return out
}

// decArg decodes an iterator argument: "~" is a nil slice, "" an empty non-nil slice.
func decArg(s string) []byte {
	if s == "~" {
		return nil
	}
	return decKey(s)
}

func encKey(b []byte) string {
	var sb strings.Builder
	for _, c := range b {
		switch {
		case c == 0x00:
			sb.WriteByte('0')
		case c == 0xff:
			sb.WriteByte('F')
		case c == 'a' || c == 'b':
			sb.WriteByte(c)
		default:
			// outside the alphabet: can only be a defect (or noise written by the harness itself)
			fmt.Fprintf(&sb, "\\x%02x", c)
		}
	}
	return sb.String()
}

func encVal(b []byte) string {
	var sb strings.Builder
	for _, c := range b {
		if c >= 0x20 && c < 0x7f && c != '\\' && c != '~' {
			sb.WriteByte(c)
		} else {
			fmt.Fprintf(&sb, "\\x%02x", c)
		}
	}
	return sb.String()
}

// decVal: values of the models are short printable strings; the empty value is an empty NON-nil slice.
func decVal(s string) []byte {
	return append(make([]byte, 0, len(s)), s...)
}

// Conf is the observation plan printed by TLC (KVCONF line): keys to look up and (prefix, start) pairs to iterate.
type Conf struct {
	Probe []string    `json:"probe"`
	Iters [][2]string `json:"iters"`
	Cfgs  []tableCfg  `json:"cfgs,omitempty"` // Table.tla only: the prefix pairs
}

func loadConf(path string) (*Conf, error) {
	b, err := os.ReadFile(path)
	if err != nil {
		return nil, err
	}
	c := &Conf{}
	if err := json.Unmarshal(b, c); err != nil {
		return nil, err
	}
	if len(c.Probe) == 0 || len(c.Iters) == 0 {
		return nil, fmt.Errorf("empty observation plan in %s", path)
	}
	return c, nil
}

// helpers on JSON-generic values
func str(v interface{}) string {
	s, _ := v.(string)
	return s
}

func num(v interface{}) int {
	f, _ := v.(float64)
	return int(f)
}

func list(v interface{}) []interface{} {
	l, _ := v.([]interface{})
	return l
}

func obj(v interface{}) map[string]interface{} {
	m, _ := v.(map[string]interface{})
	return m
}

// pairs decodes [[key, value], ...]
func pairs(v interface{}) [][2]string {
	var out [][2]string
	for _, p := range list(v) {
		l := list(p)
		if len(l) == 2 {
			out = append(out, [2]string{str(l[0]), str(l[1])})
		}
	}
	return out
}
