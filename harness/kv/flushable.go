package kv

import (
	"fmt"

	"verifharness/replay"

	"github.com/Fantom-foundation/lachesis-base/kvdb"
	"github.com/Fantom-foundation/lachesis-base/kvdb/flushable"
)

// ---- Flushable.tla adapter (C22): a flushable store over a backend the harness can also read directly ----

type flInst struct {
	core
	fl     kvdb.FlushableKVStore
	under  kvdb.Store // the store underneath, read (and, while building a pre-state, written) directly
	lazy   *flushable.LazyFlushable
	nsnaps int
}

func (in *flInst) Close() { in.releaseAll() }

// writeOver issues the overlay entries as Put / Delete on the flushable store, or (viaBatch) through the
// store's long-lived batch object: queue, Write, Reset
func (in *flInst) writeOver(over [][2]string, useBatch bool) error {
	if useBatch && len(over) > 0 {
		in.ensureBatch()
		for _, p := range over {
			var err error
			kb, vb := spare(decKey(p[0])), spare(decVal(p[1]))
			if p[1] == "x" {
				err = in.batch.Delete(kb)
			} else {
				err = in.batch.Put(kb, vb)
			}
			scribble(kb)
			scribble(vb)
			if err != nil {
				return err
			}
		}
		if err := in.batch.Write(); err != nil {
			return err
		}
		in.batch.Reset()
		return nil
	}
	for _, p := range over {
		var err error
		kb, vb := spare(decKey(p[0])), spare(decVal(p[1]))
		if p[1] == "x" {
			err = in.fl.Delete(kb)
		} else {
			err = in.fl.Put(kb, vb)
		}
		scribble(kb)
		scribble(vb)
		if err != nil {
			return err
		}
	}
	return nil
}

// build establishes an abstract state of Flushable.tla on the empty, clean store.
// The underlying store is written directly (the harness owns it); the overlay only through Put/Delete.
func (in *flInst) build(state map[string]interface{}) error {
	snaps := list(state["snaps"])
	in.nsnaps = len(snaps)
	in.ensureSlots(in.nsnaps)
	under := pairs(state["under"])
	anyLive := false
	for _, s := range snaps {
		if live, _ := obj(s)["live"].(bool); live {
			anyLive = true
		}
	}
	bw, _ := state["bw"].(bool)
	// bprev (Flushable.tla): the store's batch object has written and been Reset before and nothing was flushed or
	// dropped since: the overlay of such a state is written through that object
	bprev, _ := state["bprev"].(bool)
	// a written batch whose keys are still unflushed with its values is written last (the natural history);
	// otherwise it is written first and what it wrote discarded
	late := bw && opsConsistent(list(state["batch"]), pairs(state["over"]), "x")
	if bw && !late {
		if err := in.buildBatch(list(state["batch"])); err != nil {
			return err
		}
		in.ensureBatch()
		if err := in.batch.Write(); err != nil {
			return err
		}
		in.fl.DropNotFlushed()
		in.noteFlushed()
	}
	if in.lazy != nil && (len(under) > 0 || anyLive) {
		// a lazy store reads from its real database only once that exists
		if _, err := in.lazy.InitUnderlyingDb(); err != nil {
			return err
		}
	}
	for i, s := range snaps {
		m := obj(s)
		if live, _ := m["live"].(bool); live {
			if err := setContent(in.under, pairs(m["view"])); err != nil {
				return err
			}
			sn, err := in.fl.GetSnapshot()
			if err != nil {
				return err
			}
			in.snaps[i] = sn
		}
	}
	if err := setContent(in.under, under); err != nil {
		return err
	}
	useBatch := (in.viaBatch || bprev) && !(bw && !late)
	if bprev && useBatch && len(pairs(state["over"])) > 0 {
		in.stats.PreStatesViaSpecBatch++
	}
	if err := in.writeOver(pairs(state["over"]), useBatch); err != nil {
		return err
	}
	if bw && !late {
		return nil
	}
	if err := in.buildBatch(list(state["batch"])); err != nil {
		return err
	}
	if late {
		in.ensureBatch()
		return in.batch.Write()
	}
	return nil
}

func (in *flInst) Apply(act map[string]interface{}) (map[string]interface{}, error) {
	done, err := in.applyCommon(act)
	if done {
		return map[string]interface{}{}, err
	}
	switch str(act["op"]) {
	case "flush":
		err := in.fl.Flush()
		in.noteFlushed()
		return map[string]interface{}{}, err
	case "drop":
		in.fl.DropNotFlushed()
		in.noteFlushed()
		return map[string]interface{}{}, nil
	case "clear":
		// through the public API: delete every visible key, then flush
		in.releaseAll()
		if in.batch != nil {
			in.batch.Reset()
		}
		for _, k := range allKeys(in.fl) {
			if err := in.fl.Delete(k); err != nil {
				return nil, err
			}
		}
		err := in.fl.Flush()
		in.noteFlushed()
		return map[string]interface{}{}, err
	case "goto":
		return map[string]interface{}{}, in.build(obj(act["state"]))
	}
	return nil, fmt.Errorf("unknown op %v", act["op"])
}

func (in *flInst) Project() interface{} {
	in.noteRead()
	return map[string]interface{}{
		"view":  readerObs(in.fl, in.env.Conf),
		"nfp":   in.fl.NotFlushedPairs(),
		"under": allPairs(in.under),
		"snaps": in.snapsObs(in.nsnaps),
	}
}

// FlushableAdapter: kind = "fl" (flushable.Wrap), "lazy" (flushable.NewLazy), "fl2" (flushable over flushable);
// backend = mem | ldb | peb.
func FlushableAdapter(env *Env, kind, backend string) replay.Adapter {
	name := kind + ":" + backend
	raw := env.newRaw(backend, name)
	stats := env.newStats(name)
	n := 0
	return replay.Adapter{Name: name, New: func(pre interface{}) (replay.Inst, error) {
		db, err := raw.get()
		if err != nil {
			return nil, err
		}
		n++
		in := &flInst{core: core{env: env, tick: func() {}, viaBatch: n%2 == 0, stats: stats}, under: db}
		switch kind {
		case "fl":
			in.fl = flushable.Wrap(db)
		case "fl2":
			mid := flushable.Wrap(db)
			in.under = mid
			in.fl = flushable.Wrap(mid)
		case "lazy":
			in.lazy = flushable.NewLazy(func() (kvdb.Store, error) { return db, nil }, func() {})
			in.fl = in.lazy
		default:
			return nil, fmt.Errorf("unknown flushable kind %q", kind)
		}
		in.st = in.fl
		in.replayTo = in.fl
		if err := in.build(obj(pre)); err != nil {
			return nil, fmt.Errorf("cannot establish pre-state: %v", err)
		}
		return in, nil
	}}
}
