// Package replay implements pattern R of DESIGN.md: every transition explored by TLC
// (emitted as {"pre":..,"act":..,"post":..}) is executed on the real object and the
// result, the side outputs and the projected state are compared with the specification's.
package replay

import (
	"bufio"
	"encoding/json"
	"fmt"
	"math/rand"
	"os"
	"reflect"
	"sort"
)

// Set marks a slice whose order carries no meaning (compared as a multiset).
type Set []interface{}

// Inst is one live implementation object.
type Inst interface {
	// Apply executes the action; the returned map holds the observed outputs under the same
	// keys as the specification's act record ("res", "evlog", ...). Keys absent from the map
	// are not compared.
	Apply(act map[string]interface{}) (map[string]interface{}, error)
	// Project returns the abstract state of the object, read through its public API.
	Project() interface{}
	Close()
}

// Adapter builds implementation objects in a given abstract state.
type Adapter struct {
	Name string
	New  func(pre interface{}) (Inst, error)
	Skip func(act map[string]interface{}) bool
}

type Edge struct {
	Pre  interface{}            `json:"pre"`
	Act  map[string]interface{} `json:"act"`
	Post interface{}            `json:"post"`
	// Obs, when present, is the observable projection of the post-state (what Project() can read);
	// otherwise the whole post-state is observable.
	Obs interface{} `json:"obs,omitempty"`
}

type Mismatch struct {
	Kind string      `json:"kind"` // "res:<key>" | "post" | "panic" | "error"
	Op   string      `json:"op"`
	Sig  string      `json:"sig"`
	Edge Edge        `json:"edge"`
	Want interface{} `json:"want"`
	Got  interface{} `json:"got"`
	Mode string      `json:"mode"`
	Path []Edge      `json:"path,omitempty"`
}

type Report struct {
	Adapter       string         `json:"adapter"`
	Edges         int            `json:"edges"`
	Applied       int            `json:"applied"`
	Skipped       int            `json:"skipped"`
	DistinctPre   int            `json:"distinct_pre"`
	DistinctEdges int            `json:"distinct_edges"`
	Walks         int            `json:"walks"`
	WalkSteps     int            `json:"walk_steps"`
	Ops           map[string]int `json:"ops"`
	MismatchCount int            `json:"mismatch_count"`
	Sigs          map[string]int `json:"sigs"`
	Mismatches    []Mismatch     `json:"mismatches"`
	Sample        []Edge         `json:"sample"`
}

func canon(v interface{}) string {
	b, _ := json.Marshal(v)
	return string(b)
}

// toGeneric converts any Go value to JSON-generic form but keeps Set markers.
func toGeneric(v interface{}) interface{} {
	switch x := v.(type) {
	case Set:
		out := make(Set, len(x))
		for i, e := range x {
			out[i] = toGeneric(e)
		}
		return out
	case map[string]interface{}:
		out := map[string]interface{}{}
		for k, e := range x {
			out[k] = toGeneric(e)
		}
		return out
	case []interface{}:
		out := make([]interface{}, len(x))
		for i, e := range x {
			out[i] = toGeneric(e)
		}
		return out
	case nil:
		return nil
	}
	rv := reflect.ValueOf(v)
	switch rv.Kind() {
	case reflect.Slice, reflect.Array:
		if rv.Kind() == reflect.Slice && rv.Type().Elem().Kind() == reflect.Uint8 {
			break
		}
		out := make([]interface{}, rv.Len())
		for i := 0; i < rv.Len(); i++ {
			out[i] = toGeneric(rv.Index(i).Interface())
		}
		return out
	case reflect.Map:
		if rv.Type().Key().Kind() == reflect.String {
			out := map[string]interface{}{}
			for _, k := range rv.MapKeys() {
				out[k.String()] = toGeneric(rv.MapIndex(k).Interface())
			}
			return out
		}
	}
	b, err := json.Marshal(v)
	if err != nil {
		return fmt.Sprintf("%v", v)
	}
	var g interface{}
	json.Unmarshal(b, &g)
	return g
}

func stripSets(v interface{}) interface{} {
	switch x := v.(type) {
	case Set:
		out := make([]interface{}, len(x))
		for i, e := range x {
			out[i] = stripSets(e)
		}
		sort.Slice(out, func(i, j int) bool { return canon(out[i]) < canon(out[j]) })
		return out
	case map[string]interface{}:
		out := map[string]interface{}{}
		for k, e := range x {
			out[k] = stripSets(e)
		}
		return out
	case []interface{}:
		out := make([]interface{}, len(x))
		for i, e := range x {
			out[i] = stripSets(e)
		}
		return out
	}
	return v
}

// Equal compares the specification's value (JSON-generic) with the implementation's value.
func Equal(want, got interface{}) bool {
	return equal(want, toGeneric(got))
}

func equal(want, got interface{}) bool {
	switch g := got.(type) {
	case Set:
		w, ok := want.([]interface{})
		if !ok || len(w) != len(g) {
			return false
		}
		ws := append([]interface{}{}, w...)
		gs := stripSets(g).([]interface{})
		sort.Slice(ws, func(i, j int) bool { return canon(ws[i]) < canon(ws[j]) })
		for i := range ws {
			if canon(ws[i]) != canon(gs[i]) {
				return false
			}
		}
		return true
	case map[string]interface{}:
		w, ok := want.(map[string]interface{})
		if !ok || len(w) != len(g) {
			return false
		}
		for k, e := range g {
			we, ok := w[k]
			if !ok || !equal(we, e) {
				return false
			}
		}
		return true
	case []interface{}:
		w, ok := want.([]interface{})
		if !ok {
			// TLC prints an empty function/sequence as [] or {}; accept {} vs [] when both empty
			if wm, ok2 := want.(map[string]interface{}); ok2 && len(wm) == 0 && len(g) == 0 {
				return true
			}
			return false
		}
		if len(w) != len(g) {
			return false
		}
		for i := range g {
			if !equal(w[i], g[i]) {
				return false
			}
		}
		return true
	}
	return canon(want) == canon(got)
}

func LoadEdges(path string) ([]Edge, error) {
	f, err := os.Open(path)
	if err != nil {
		return nil, err
	}
	defer f.Close()
	var edges []Edge
	sc := bufio.NewScanner(f)
	sc.Buffer(make([]byte, 1<<20), 1<<28)
	for sc.Scan() {
		if len(sc.Bytes()) == 0 {
			continue
		}
		var e Edge
		if err := json.Unmarshal(sc.Bytes(), &e); err != nil {
			return nil, fmt.Errorf("bad edge line: %v", err)
		}
		edges = append(edges, e)
	}
	return edges, sc.Err()
}

func opOf(act map[string]interface{}) string {
	s, _ := act["op"].(string)
	return s
}

type Options struct {
	Walks   int
	WalkLen int
	Seed    int64
	MaxKeep int
}

func (r *Report) add(m Mismatch, keep int) {
	r.MismatchCount++
	r.Sigs[m.Sig]++
	if len(r.Mismatches) < keep && r.Sigs[m.Sig] <= 3 {
		r.Mismatches = append(r.Mismatches, m)
	}
}

// step applies one edge to inst and reports mismatches; returns false when inst is no longer usable
func step(a Adapter, inst Inst, e Edge, mode string, path []Edge, rep *Report, keep int) (ok bool) {
	op := opOf(e.Act)
	ok = true
	defer func() {
		if p := recover(); p != nil {
			rep.add(Mismatch{Kind: "panic", Op: op, Sig: a.Name + ":" + op + ":panic", Edge: e, Got: fmt.Sprint(p), Mode: mode, Path: path}, keep)
			ok = false
		}
	}()
	out, err := inst.Apply(e.Act)
	if err != nil {
		rep.add(Mismatch{Kind: "error", Op: op, Sig: a.Name + ":" + op + ":error", Edge: e, Got: err.Error(), Mode: mode, Path: path}, keep)
		return false
	}
	keys := make([]string, 0, len(out))
	for k := range out {
		keys = append(keys, k)
	}
	sort.Strings(keys)
	for _, k := range keys {
		if !Equal(e.Act[k], out[k]) {
			rep.add(Mismatch{Kind: "res:" + k, Op: op, Sig: a.Name + ":" + op + ":" + k, Edge: e, Want: e.Act[k], Got: stripSets(toGeneric(out[k])), Mode: mode, Path: path}, keep)
			ok = false
		}
	}
	got := inst.Project()
	wantPost := e.Post
	if e.Obs != nil {
		wantPost = e.Obs
	}
	if !Equal(wantPost, got) {
		rep.add(Mismatch{Kind: "post", Op: op, Sig: a.Name + ":" + op + ":post", Edge: e, Want: wantPost, Got: stripSets(toGeneric(got)), Mode: mode, Path: path}, keep)
		ok = false
	}
	return ok
}

// Run replays every edge from a freshly built pre-state, then random walks through the edge graph.
func Run(a Adapter, edges []Edge, o Options) *Report {
	rep := &Report{Adapter: a.Name, Edges: len(edges), Ops: map[string]int{}, Sigs: map[string]int{}}
	if o.MaxKeep == 0 {
		o.MaxKeep = 12
	}
	byPre := map[string][]int{}
	distinct := map[string]bool{}
	for i, e := range edges {
		if a.Skip != nil && a.Skip(e.Act) {
			rep.Skipped++
			continue
		}
		k := canon(e.Pre)
		byPre[k] = append(byPre[k], i)
		distinct[k+"|"+canon(e.Act)] = true
	}
	rep.DistinctPre = len(byPre)
	rep.DistinctEdges = len(distinct)
	for i, e := range edges {
		if a.Skip != nil && a.Skip(e.Act) {
			continue
		}
		if len(rep.Sample) < 3 && i%(len(edges)/3+1) == 0 {
			rep.Sample = append(rep.Sample, e)
		}
		inst, err := a.New(e.Pre)
		if err != nil {
			rep.add(Mismatch{Kind: "error", Op: "new", Sig: a.Name + ":new:error", Edge: e, Got: err.Error(), Mode: "edge"}, o.MaxKeep)
			continue
		}
		// the freshly built object must project to the pre-state (checks the adapter itself)
		if e.Obs == nil && !Equal(e.Pre, inst.Project()) {
			rep.add(Mismatch{Kind: "pre", Op: "new", Sig: a.Name + ":new:pre", Edge: e, Want: e.Pre, Got: stripSets(toGeneric(inst.Project())), Mode: "edge"}, o.MaxKeep)
			inst.Close()
			continue
		}
		step(a, inst, e, "edge", nil, rep, o.MaxKeep)
		inst.Close()
		rep.Applied++
		rep.Ops[opOf(e.Act)]++
	}
	// random walks: hidden state that the projection does not show must not change later behaviour
	rnd := rand.New(rand.NewSource(o.Seed))
	pres := make([]string, 0, len(byPre))
	for k := range byPre {
		pres = append(pres, k)
	}
	sort.Strings(pres)
	for w := 0; w < o.Walks && len(pres) > 0; w++ {
		cur := pres[rnd.Intn(len(pres))]
		first := edges[byPre[cur][0]]
		inst, err := a.New(first.Pre)
		if err != nil {
			continue
		}
		var path []Edge
		for s := 0; s < o.WalkLen; s++ {
			cands := byPre[cur]
			if len(cands) == 0 {
				break
			}
			e := edges[cands[rnd.Intn(len(cands))]]
			var p []Edge
			if len(path) > 40 {
				p = path[len(path)-40:]
			} else {
				p = path
			}
			good := step(a, inst, e, "walk", append([]Edge{}, p...), rep, o.MaxKeep)
			rep.WalkSteps++
			if !good {
				break
			}
			path = append(path, e)
			cur = canon(e.Post)
		}
		inst.Close()
		rep.Walks++
	}
	return rep
}
