package util

import (
	"fmt"

	"verifharness/replay"

	"github.com/Fantom-foundation/lachesis-base/utils/simplewlru"
	"github.com/Fantom-foundation/lachesis-base/utils/wlru"
)

type lruAPI interface {
	Purge()
	Add(key, value interface{}, weight uint) int
	Get(key interface{}) (interface{}, bool)
	Contains(key interface{}) bool
	Peek(key interface{}) (interface{}, bool)
	Remove(key interface{}) bool
	RemoveOldest() (interface{}, interface{}, bool)
	GetOldest() (interface{}, interface{}, bool)
	Keys() []interface{}
	Len() int
	Weight() uint
	Total() (uint, int)
	Resize(maxWeight uint, maxSize int) int
}

type lruInst struct {
	c      lruAPI
	w      *wlru.Cache // nil for simplewlru
	mw, mn int
	evlog  []interface{}
	nocb   bool
}

func num(v interface{}) int {
	f, _ := v.(float64)
	return int(f)
}

func newLRU(threadSafe bool) func(pre interface{}) (replay.Inst, error) {
	return newLRUcb(threadSafe, true)
}

// newLRUcb: withCb=false builds the cache without an eviction callback (simplewlru.New / wlru.New); evictions are then
// observable only through the returned counts and the projected state.
func newLRUcb(threadSafe, withCb bool) func(pre interface{}) (replay.Inst, error) {
	return func(pre interface{}) (replay.Inst, error) {
		p := pre.(map[string]interface{})
		in := &lruInst{mw: num(p["mw"]), mn: num(p["mn"]), nocb: !withCb}
		onEv := func(k, v interface{}) {
			in.evlog = append(in.evlog, map[string]interface{}{"k": k, "v": v})
		}
		if !withCb && threadSafe {
			c, err := wlru.New(uint(in.mw), in.mn)
			if err != nil {
				return nil, err
			}
			in.c, in.w = c, c
		} else if !withCb {
			c, err := simplewlru.New(uint(in.mw), in.mn)
			if err != nil {
				return nil, err
			}
			in.c = c
		} else if threadSafe {
			c, err := wlru.NewWithEvict(uint(in.mw), in.mn, onEv)
			if err != nil {
				return nil, err
			}
			in.c, in.w = c, c
		} else {
			c, err := simplewlru.NewWithEvict(uint(in.mw), in.mn, onEv)
			if err != nil {
				return nil, err
			}
			in.c = c
		}
		q, _ := p["q"].([]interface{})
		for _, e := range q {
			m := e.(map[string]interface{})
			in.c.Add(num(m["k"]), num(m["v"]), uint(num(m["w"])))
		}
		in.evlog = nil
		return in, nil
	}
}

func (in *lruInst) Close() {}

func kvOut(k, v interface{}, ok bool) map[string]interface{} {
	if !ok {
		return map[string]interface{}{"ok": false, "k": 0, "v": 0}
	}
	return map[string]interface{}{"ok": true, "k": k, "v": v}
}

func (in *lruInst) Apply(act map[string]interface{}) (map[string]interface{}, error) {
	in.evlog = []interface{}{}
	k, v, w := num(act["k"]), num(act["v"]), uint(num(act["w"]))
	var res map[string]interface{}
	switch act["op"] {
	case "add":
		res = map[string]interface{}{"evicted": in.c.Add(k, v, w)}
	case "get":
		x, ok := in.c.Get(k)
		if !ok {
			x = 0
		}
		res = map[string]interface{}{"ok": ok, "v": x}
	case "peek":
		x, ok := in.c.Peek(k)
		if !ok {
			x = 0
		}
		res = map[string]interface{}{"ok": ok, "v": x}
	case "contains":
		res = map[string]interface{}{"ok": in.c.Contains(k)}
	case "remove":
		res = map[string]interface{}{"ok": in.c.Remove(k)}
	case "removeoldest":
		a, b, ok := in.c.RemoveOldest()
		res = kvOut(a, b, ok)
	case "getoldest":
		a, b, ok := in.c.GetOldest()
		res = kvOut(a, b, ok)
	case "resize":
		in.mw, in.mn = num(act["mw"]), num(act["mn"])
		res = map[string]interface{}{"evicted": in.c.Resize(uint(in.mw), in.mn)}
	case "purge":
		n := in.c.Len()
		in.c.Purge()
		if in.nocb {
			return map[string]interface{}{"res": map[string]interface{}{"n": n}}, nil
		}
		return map[string]interface{}{"res": map[string]interface{}{"n": n}, "evset": replay.Set(in.evlog)}, nil
	case "containsoradd":
		ok, ev := in.w.ContainsOrAdd(k, v, w)
		res = map[string]interface{}{"ok": ok, "evicted": ev}
	case "peekoradd":
		prev, ok, ev := in.w.PeekOrAdd(k, v, w)
		if !ok {
			prev = 0
		}
		res = map[string]interface{}{"ok": ok, "prev": prev, "evicted": ev}
	default:
		return nil, fmt.Errorf("unknown op %v", act["op"])
	}
	if in.nocb {
		return map[string]interface{}{"res": res}, nil
	}
	return map[string]interface{}{"res": res, "evlog": in.evlog}, nil
}

// Project reads the abstract state through the public API: Keys() (oldest first), Peek for values;
// weights are not readable per entry, so the total weight and the counters are cross-checked instead.
func (in *lruInst) Project() interface{} {
	keys := in.c.Keys()
	q := make([]interface{}, 0, len(keys))
	for _, k := range keys {
		v, _ := in.c.Peek(k)
		q = append(q, map[string]interface{}{"k": k, "v": v})
	}
	tw, tn := in.c.Total()
	return map[string]interface{}{"q": q, "mw": in.mw, "mn": in.mn, "weight": in.c.Weight(), "len": in.c.Len(), "tw": tw, "tn": tn}
}

func LRUAdapters() []replay.Adapter {
	return []replay.Adapter{
		{Name: "simplewlru", New: newLRU(false), Skip: func(act map[string]interface{}) bool {
			return act["op"] == "containsoradd" || act["op"] == "peekoradd"
		}},
		{Name: "wlru", New: newLRU(true)},
		{Name: "simplewlru-nocb", New: newLRUcb(false, false), Skip: func(act map[string]interface{}) bool {
			return act["op"] == "containsoradd" || act["op"] == "peekoradd"
		}},
		{Name: "wlru-nocb", New: newLRUcb(true, false)},
	}
}
