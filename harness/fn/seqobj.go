package fn

import (
	"fmt"

	"verifharness/replay"

	"github.com/Fantom-foundation/lachesis-base/common/bigendian"
	"github.com/Fantom-foundation/lachesis-base/common/littleendian"
	"github.com/Fantom-foundation/lachesis-base/eventcheck"
	"github.com/Fantom-foundation/lachesis-base/eventcheck/basiccheck"
	"github.com/Fantom-foundation/lachesis-base/eventcheck/epochcheck"
	"github.com/Fantom-foundation/lachesis-base/eventcheck/parentscheck"
	"github.com/Fantom-foundation/lachesis-base/hash"
	"github.com/Fantom-foundation/lachesis-base/inter/dag"
	"github.com/Fantom-foundation/lachesis-base/inter/idx"
	"github.com/Fantom-foundation/lachesis-base/inter/pos"
	"github.com/Fantom-foundation/lachesis-base/utils/piecefunc"
)

// ---------------------------------------------------------------- C31: the function value of piecefunc.NewFunc as an object (PieceSeq.tla)

type pieceInst struct {
	dots [][]int
	f    func(uint64) uint64
	prev int
}

func newPieceSeq(pre interface{}) (replay.Inst, error) {
	p := pre.(map[string]interface{})
	in := &pieceInst{prev: -1}
	raw, _ := p["dots"].([]interface{})
	ds := make([]piecefunc.Dot, 0, len(raw))
	for _, d := range raw {
		xy := ints(d)
		in.dots = append(in.dots, xy)
		ds = append(ds, piecefunc.Dot{X: uint64(xy[0]), Y: uint64(xy[1])})
	}
	in.f = piecefunc.NewFunc(ds)
	// ONE function instance: the lookup that preceded this state is made on it first
	if pv, _ := p["prev"].(float64); pv >= 0 {
		in.f(uint64(pv))
		in.prev = int(pv)
	}
	return in, nil
}

func (in *pieceInst) Close() {}

func (in *pieceInst) Apply(act map[string]interface{}) (map[string]interface{}, error) {
	if act["op"] != "get" {
		return nil, fmt.Errorf("unknown op %v", act["op"])
	}
	x, _ := act["x"].(float64)
	in.prev = int(x)
	return map[string]interface{}{"res": in.f(uint64(x))}, nil
}

func (in *pieceInst) Project() interface{} {
	return map[string]interface{}{"dots": in.dots, "prev": in.prev}
}

// ---------------------------------------------------------------- C32: dag.MutableBaseEvent (EventId.tla)

type eventIDInst struct {
	me *dag.MutableBaseEvent
}

func idBytes(h hash.Event) []int {
	b := h.Bytes()
	out := make([]int, len(b))
	for i, x := range b {
		out[i] = int(x)
	}
	return out
}

func tailOf(v interface{}) (t [24]byte) {
	for i, x := range ints(v) {
		if i < 24 {
			t[i] = byte(x)
		}
	}
	return
}

func newEventID(pre interface{}) (replay.Inst, error) {
	p := pre.(map[string]interface{})
	me := &dag.MutableBaseEvent{}
	id := ints(p["id"])
	nonzero := false
	for _, x := range id {
		nonzero = nonzero || x != 0
	}
	if nonzero {
		// reach the pre-state's id the way a caller would: set the values the id carries, stamp it
		h := hash.BytesToEvent(toBytes(id))
		me.SetEpoch(h.Epoch())
		me.SetLamport(h.Lamport())
		me.SetID(tailOf(toIface(id[8:])))
	}
	ep, _ := p["epoch"].(float64)
	lam, _ := p["lamport"].(float64)
	me.SetEpoch(idx.Epoch(ep))
	me.SetLamport(idx.Lamport(lam))
	return &eventIDInst{me: me}, nil
}

func toIface(a []int) []interface{} {
	out := make([]interface{}, len(a))
	for i, x := range a {
		out[i] = float64(x)
	}
	return out
}

func (in *eventIDInst) Close() {}

func (in *eventIDInst) Apply(act map[string]interface{}) (map[string]interface{}, error) {
	v, _ := act["v"].(float64)
	switch act["op"] {
	case "setepoch":
		in.me.SetEpoch(idx.Epoch(v))
	case "setlamport":
		in.me.SetLamport(idx.Lamport(v))
	case "setid":
		in.me.SetID(tailOf(act["tail"]))
	case "build":
		e := in.me.Build(tailOf(act["tail"]))
		return map[string]interface{}{"res": map[string]interface{}{
			"id": idBytes(e.ID()), "epoch": uint32(e.Epoch()), "lamport": uint32(e.Lamport()),
			"id_epoch": uint32(e.ID().Epoch()), "id_lamport": uint32(e.ID().Lamport())}}, nil
	default:
		return nil, fmt.Errorf("unknown op %v", act["op"])
	}
	return map[string]interface{}{}, nil
}

func (in *eventIDInst) Project() interface{} {
	return map[string]interface{}{"epoch": uint32(in.me.Epoch()), "lamport": uint32(in.me.Lamport()), "id": idBytes(in.me.ID())}
}

func SeqObjAdapters() []replay.Adapter {
	return []replay.Adapter{{Name: "piecefunc-seq", New: newPieceSeq}, {Name: "eventid", New: newEventID},
		{Name: "eventcheck-seq", New: newCheckSeq}, {Name: "codec-seq", New: newCodecSeq}}
}

// ---------------------------------------------------------------- C13: one long-lived eventcheck.Checkers with a changing reader (EventCheckSeq.tla)

type mutReader struct {
	v *pos.Validators
	e idx.Epoch
}

func (r *mutReader) GetEpochValidators() (*pos.Validators, idx.Epoch) { return r.v, r.e }

type checkSeqInst struct {
	rd *mutReader
	ch eventcheck.Checkers
	h  []interface{}
}

func (in *checkSeqInst) setReader(epoch float64, vals interface{}) {
	ids := []idx.ValidatorID{}
	for _, x := range ints(vals) {
		ids = append(ids, idx.ValidatorID(x))
	}
	in.rd.v, in.rd.e = pos.EqualWeightValidators(ids, 1), idx.Epoch(epoch)
}

func (in *checkSeqInst) validate(ev interface{}) bool {
	m, _ := ev.(map[string]interface{})
	g := func(k string) uint32 { f, _ := m[k].(float64); return uint32(f) }
	v := evVec{E: evFields{Creator: g("creator"), Epoch: g("epoch"), Seq: g("seq"), Frame: g("frame"), Lamport: g("lamport")}}
	e, parents := v.events()
	return in.ch.Validate(e, parents) == nil
}

func (in *checkSeqInst) do(op map[string]interface{}) (map[string]interface{}, error) {
	switch op["op"] {
	case "setreader":
		ep, _ := op["epoch"].(float64)
		in.setReader(ep, op["vals"])
		in.h = append(in.h, map[string]interface{}{"op": "setreader", "epoch": op["epoch"], "vals": op["vals"]})
		return map[string]interface{}{}, nil
	case "validate":
		res := in.validate(op["e"])
		in.h = append(in.h, map[string]interface{}{"op": "validate", "e": op["e"]})
		return map[string]interface{}{"res": res}, nil
	}
	return nil, fmt.Errorf("unknown op %v", op["op"])
}

func newCheckSeq(pre interface{}) (replay.Inst, error) {
	p := pre.(map[string]interface{})
	in := &checkSeqInst{rd: &mutReader{}, h: []interface{}{}}
	in.setReader(5, []interface{}{float64(1), float64(2)}) // EventCheckSeq!Init
	// ONE Checkers value for the whole history
	in.ch = eventcheck.Checkers{Basiccheck: basiccheck.New(), Epochcheck: epochcheck.New(in.rd), Parentscheck: parentscheck.New()}
	hist, _ := p["h"].([]interface{})
	for _, o := range hist {
		if _, err := in.do(o.(map[string]interface{})); err != nil {
			return nil, err
		}
	}
	return in, nil
}

func (in *checkSeqInst) Close() {}
func (in *checkSeqInst) Apply(act map[string]interface{}) (map[string]interface{}, error) {
	return in.do(act)
}
func (in *checkSeqInst) Project() interface{} {
	ids := []uint32{}
	for _, id := range in.rd.v.SortedIDs() {
		ids = append(ids, uint32(id))
	}
	return map[string]interface{}{"cur": uint32(in.rd.e), "vals": replay.Set(toIfaceU(ids)), "h": in.h}
}

func toIfaceU(a []uint32) []interface{} {
	out := make([]interface{}, len(a))
	for i, x := range a {
		out[i] = x
	}
	return out
}

// ---------------------------------------------------------------- C32: encoders/decoders under a hostile caller (CodecSeq.tla)

type codecSeqInst struct {
	w, prev int
}

// scribble is what a caller may do with a slice it was handed: overwrite it and append to it.
func scribble(b []byte) {
	for i := range b {
		b[i] ^= 0xFF
	}
	b = append(b, 0xAA, 0xBB, 0xCC, 0xDD, 0xEE, 0xFF, 0xAB, 0xCD)
	if len(b) > 0 {
		b[0] ^= 0x55
	}
}

func encoders(w int, n uint64) (be, le []byte, idxs [][]byte) {
	switch w {
	case 2:
		return bigendian.Uint16ToBytes(uint16(n)), littleendian.Uint16ToBytes(uint16(n)), nil
	case 4:
		m := uint32(n)
		return bigendian.Uint32ToBytes(m), littleendian.Uint32ToBytes(m), [][]byte{idx.Epoch(m).Bytes(), idx.Event(m).Bytes(),
			idx.Lamport(m).Bytes(), idx.Frame(m).Bytes(), idx.Pack(m).Bytes(), idx.ValidatorID(m).Bytes()}
	}
	return bigendian.Uint64ToBytes(n), littleendian.Uint64ToBytes(n), [][]byte{idx.Block(n).Bytes()}
}

func decoders(w int, be, le []byte) (vbe, vle uint64) {
	switch w {
	case 2:
		return uint64(bigendian.BytesToUint16(be)), uint64(littleendian.BytesToUint16(le))
	case 4:
		return uint64(bigendian.BytesToUint32(be)), uint64(littleendian.BytesToUint32(le))
	}
	return bigendian.BytesToUint64(be), littleendian.BytesToUint64(le)
}

func (in *codecSeqInst) enc(n uint64, act map[string]interface{}) map[string]interface{} {
	be, le, idxs := encoders(in.w, n)
	out := map[string]interface{}{"be": bytesToInts(be), "le": bytesToInts(le)}
	same := true
	for _, x := range idxs {
		same = same && string(x) == string(be)
	}
	out["idx_same_as_be"] = same
	// the hostile caller
	scribble(be)
	scribble(le)
	for _, x := range idxs {
		scribble(x)
	}
	if act != nil {
		// decoding the specification's bytes, twice from the same buffer
		bb, lb := toBytes(ints(act["be"])), toBytes(ints(act["le"]))
		b0, l0 := string(bb), string(lb)
		v1, u1 := decoders(in.w, bb, lb)
		v2, u2 := decoders(in.w, bb, lb)
		out["dec_be"], out["dec_be_again"], out["be_input_unchanged"] = v1, v2, string(bb) == b0
		out["dec_le"], out["dec_le_again"], out["le_input_unchanged"] = u1, u2, string(lb) == l0
	}
	in.prev = int(n)
	return out
}

func bytesToInts(b []byte) []int {
	out := make([]int, len(b))
	for i, x := range b {
		out[i] = int(x)
	}
	return out
}

func newCodecSeq(pre interface{}) (replay.Inst, error) {
	p := pre.(map[string]interface{})
	w, _ := p["w"].(float64)
	in := &codecSeqInst{w: int(w), prev: -1}
	if pv, _ := p["prev"].(float64); pv >= 0 {
		in.enc(uint64(pv), nil)
	}
	return in, nil
}

func (in *codecSeqInst) Close() {}
func (in *codecSeqInst) Apply(act map[string]interface{}) (map[string]interface{}, error) {
	if act["op"] != "enc" {
		return nil, fmt.Errorf("unknown op %v", act["op"])
	}
	n, _ := act["n"].(float64)
	return in.enc(uint64(n), act), nil
}
func (in *codecSeqInst) Project() interface{} {
	return map[string]interface{}{"w": in.w, "prev": in.prev}
}
