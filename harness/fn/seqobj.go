package fn

import (
	"fmt"

	"verifharness/replay"

	"github.com/Fantom-foundation/lachesis-base/hash"
	"github.com/Fantom-foundation/lachesis-base/inter/dag"
	"github.com/Fantom-foundation/lachesis-base/inter/idx"
	"github.com/Fantom-foundation/lachesis-base/utils/piecefunc"
)

// ---------------------------------------------------------------- C31: the function value of piecefunc.NewFunc as an object (PieceSeq.tla)

type pieceInst struct {
	dots [][]int
	f    func(uint64) uint64
	prev int
}

func newPieceSeq(pre interface{}) (replay.Inst, error) {
	p := pre.(map[string]interface{})
	in := &pieceInst{prev: -1}
	raw, _ := p["dots"].([]interface{})
	ds := make([]piecefunc.Dot, 0, len(raw))
	for _, d := range raw {
		xy := ints(d)
		in.dots = append(in.dots, xy)
		ds = append(ds, piecefunc.Dot{X: uint64(xy[0]), Y: uint64(xy[1])})
	}
	in.f = piecefunc.NewFunc(ds)
	// ONE function instance: the lookup that preceded this state is made on it first
	if pv, _ := p["prev"].(float64); pv >= 0 {
		in.f(uint64(pv))
		in.prev = int(pv)
	}
	return in, nil
}

func (in *pieceInst) Close() {}

func (in *pieceInst) Apply(act map[string]interface{}) (map[string]interface{}, error) {
	if act["op"] != "get" {
		return nil, fmt.Errorf("unknown op %v", act["op"])
	}
	x, _ := act["x"].(float64)
	in.prev = int(x)
	return map[string]interface{}{"res": in.f(uint64(x))}, nil
}

func (in *pieceInst) Project() interface{} {
	return map[string]interface{}{"dots": in.dots, "prev": in.prev}
}

// ---------------------------------------------------------------- C32: dag.MutableBaseEvent (EventId.tla)

type eventIDInst struct {
	me *dag.MutableBaseEvent
}

func idBytes(h hash.Event) []int {
	b := h.Bytes()
	out := make([]int, len(b))
	for i, x := range b {
		out[i] = int(x)
	}
	return out
}

func tailOf(v interface{}) (t [24]byte) {
	for i, x := range ints(v) {
		if i < 24 {
			t[i] = byte(x)
		}
	}
	return
}

func newEventID(pre interface{}) (replay.Inst, error) {
	p := pre.(map[string]interface{})
	me := &dag.MutableBaseEvent{}
	id := ints(p["id"])
	nonzero := false
	for _, x := range id {
		nonzero = nonzero || x != 0
	}
	if nonzero {
		// reach the pre-state's id the way a caller would: set the values the id carries, stamp it
		h := hash.BytesToEvent(toBytes(id))
		me.SetEpoch(h.Epoch())
		me.SetLamport(h.Lamport())
		me.SetID(tailOf(toIface(id[8:])))
	}
	ep, _ := p["epoch"].(float64)
	lam, _ := p["lamport"].(float64)
	me.SetEpoch(idx.Epoch(ep))
	me.SetLamport(idx.Lamport(lam))
	return &eventIDInst{me: me}, nil
}

func toIface(a []int) []interface{} {
	out := make([]interface{}, len(a))
	for i, x := range a {
		out[i] = float64(x)
	}
	return out
}

func (in *eventIDInst) Close() {}

func (in *eventIDInst) Apply(act map[string]interface{}) (map[string]interface{}, error) {
	v, _ := act["v"].(float64)
	switch act["op"] {
	case "setepoch":
		in.me.SetEpoch(idx.Epoch(v))
	case "setlamport":
		in.me.SetLamport(idx.Lamport(v))
	case "setid":
		in.me.SetID(tailOf(act["tail"]))
	case "build":
		e := in.me.Build(tailOf(act["tail"]))
		return map[string]interface{}{"res": map[string]interface{}{
			"id": idBytes(e.ID()), "epoch": uint32(e.Epoch()), "lamport": uint32(e.Lamport()),
			"id_epoch": uint32(e.ID().Epoch()), "id_lamport": uint32(e.ID().Lamport())}}, nil
	default:
		return nil, fmt.Errorf("unknown op %v", act["op"])
	}
	return map[string]interface{}{}, nil
}

func (in *eventIDInst) Project() interface{} {
	return map[string]interface{}{"epoch": uint32(in.me.Epoch()), "lamport": uint32(in.me.Lamport()), "id": idBytes(in.me.ID())}
}

func SeqObjAdapters() []replay.Adapter {
	return []replay.Adapter{{Name: "piecefunc-seq", New: newPieceSeq}, {Name: "eventid", New: newEventID}}
}
