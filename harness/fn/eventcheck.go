package fn

import (
	"encoding/json"
	"fmt"
	"os"
	"sort"
	"strings"

	"github.com/Fantom-foundation/lachesis-base/eventcheck"
	"github.com/Fantom-foundation/lachesis-base/eventcheck/basiccheck"
	"github.com/Fantom-foundation/lachesis-base/eventcheck/epochcheck"
	"github.com/Fantom-foundation/lachesis-base/eventcheck/parentscheck"
	"github.com/Fantom-foundation/lachesis-base/hash"
	"github.com/Fantom-foundation/lachesis-base/inter/dag"
	"github.com/Fantom-foundation/lachesis-base/inter/dag/tdag"
	"github.com/Fantom-foundation/lachesis-base/inter/idx"
	"github.com/Fantom-foundation/lachesis-base/inter/pos"
)

type epochReader struct {
	v *pos.Validators
	e idx.Epoch
}

func (r epochReader) GetEpochValidators() (*pos.Validators, idx.Epoch) { return r.v, r.e }

type evFields struct {
	Creator uint32 `json:"creator"`
	Epoch   uint32 `json:"epoch"`
	Seq     uint32 `json:"seq"`
	Frame   uint32 `json:"frame"`
	Lamport uint32 `json:"lamport"`
	K       uint32 `json:"k"`
}

type evVec struct {
	E    evFields   `json:"e"`
	Ps   []evFields `json:"ps"`
	Cur  uint32     `json:"cur"`
	Vals []uint32   `json:"vals"`
	Wf   bool       `json:"wf"`
	Why  []string   `json:"why"`
}

// events builds the real event and its parents from the vector.
func (v evVec) events() (dag.Event, dag.Events) {
	// the parents: real events; entries with the same identity k are the same event
	byK := map[uint32]*tdag.TestEvent{}
	parents := make(dag.Events, 0, len(v.Ps))
	hashes := make(hash.Events, 0, len(v.Ps))
	for _, p := range v.Ps {
		pe, ok := byK[p.K]
		if !ok {
			pe = &tdag.TestEvent{}
			pe.SetCreator(idx.ValidatorID(p.Creator))
			pe.SetEpoch(idx.Epoch(v.E.Epoch))
			pe.SetSeq(idx.Event(p.Seq))
			pe.SetFrame(1)
			pe.SetLamport(idx.Lamport(p.Lamport))
			var tail [24]byte
			tail[0] = 0xA0
			tail[23] = byte(p.K)
			pe.SetID(tail)
			byK[p.K] = pe
		}
		parents = append(parents, pe)
		hashes = append(hashes, pe.ID())
	}
	e := &tdag.TestEvent{}
	e.SetCreator(idx.ValidatorID(v.E.Creator))
	e.SetEpoch(idx.Epoch(v.E.Epoch))
	e.SetSeq(idx.Event(v.E.Seq))
	e.SetFrame(idx.Frame(v.E.Frame))
	e.SetLamport(idx.Lamport(v.E.Lamport))
	e.SetParents(hashes)
	var tail [24]byte
	tail[0] = 0xEE
	e.SetID(tail)
	return e, parents
}

// validate builds real events from the vector and runs eventcheck.Checkers.Validate on them.
func (v evVec) validate() (accepted bool, errText string, panicked bool) {
	ids := make([]idx.ValidatorID, len(v.Vals))
	for i, x := range v.Vals {
		ids[i] = idx.ValidatorID(x)
	}
	ch := eventcheck.Checkers{
		Basiccheck:   basiccheck.New(),
		Epochcheck:   epochcheck.New(epochReader{pos.EqualWeightValidators(ids, 1), idx.Epoch(v.Cur)}),
		Parentscheck: parentscheck.New(),
	}
	e, parents := v.events()
	var err error
	panicked, msg := catch(func() { err = ch.Validate(e, parents) })
	if panicked {
		return false, msg, true
	}
	if err != nil {
		return false, err.Error(), false
	}
	return true, "", false
}

func init() {
	// {"e": event fields, "ps": parents (k = identity), "cur": current epoch, "vals": validator ids, "wf": WellFormed, "why": violated clauses}
	vecKinds["eventcheck"] = func(r *Report, path string) error {
		return r.forLines(path, func(line []byte) error {
			var v evVec
			if err := json.Unmarshal(line, &v); err != nil {
				return err
			}
			got, errText, panicked := v.validate()
			raw := json.RawMessage(append([]byte{}, line...))
			if panicked {
				r.miss("eventcheck:panic", "Checkers.Validate panicked", raw, v.Wf, errText)
				return nil
			}
			if v.Wf {
				r.Counts["well_formed"]++
			} else {
				r.Counts["violating_"+itoa(len(v.Why))+"_clauses"]++
				if len(v.Why) == 1 {
					r.Counts["only_"+v.Why[0]]++
				}
			}
			r.Compared++
			if got != v.Wf {
				why := append([]string{}, v.Why...)
				sort.Strings(why)
				sig := "eventcheck:accepted-ill-formed:" + strings.Join(why, "+")
				gotS := "accepted"
				if v.Wf {
					sig = "eventcheck:rejected-well-formed:" + errText
					gotS = "rejected: " + errText
				}
				r.miss(sig, "Checkers.Validate", raw, map[string]interface{}{"well_formed": v.Wf, "violated": v.Why}, gotS)
			}
			return nil
		})
	}
}

// CmdEvent: vh fnevent <in.ndjson> <out.ndjson>. Runs Checkers.Validate on vectors whose field values use the whole
// uint32 range and records the verdict; the record is validated by Apalache against EventCheck.tla.
func CmdEvent(args []string) int {
	if len(args) < 2 {
		fmt.Fprintln(os.Stderr, "usage: vh fnevent <in> <out>")
		return 2
	}
	out, err := os.Create(args[1])
	if err != nil {
		fmt.Fprintln(os.Stderr, err)
		return 2
	}
	defer out.Close()
	enc := json.NewEncoder(out)
	r := newReport("event")
	err = r.forLines(args[0], func(line []byte) error {
		var v evVec
		if err := json.Unmarshal(line, &v); err != nil {
			return err
		}
		acc, errText, panicked := v.validate()
		return enc.Encode(map[string]interface{}{"e": v.E, "ps": v.Ps, "cur": v.Cur, "vals": v.Vals, "accepted": acc, "error": errText, "panicked": panicked})
	})
	if err != nil {
		fmt.Fprintln(os.Stderr, err)
		return 2
	}
	fmt.Printf("{\"cases\": %d}\n", r.Vectors)
	return 0
}

func itoa(n int) string {
	if n > 3 {
		return "4plus"
	}
	return string(rune('0' + n))
}
