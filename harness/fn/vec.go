// Package fn is the Go side of the checks C11, C12, C13, C31 and C32 (family "fn").
// It only executes the real code on inputs chosen by the TLA+ side and compares the outcome with the
// expected values that TLC (or Apalache) produced from the specifications under specs/fn; it holds no
// model of the expected behaviour.
package fn

import (
	"bufio"
	"crypto/sha1"
	"encoding/json"
	"fmt"
	"os"
)

// Mismatch is one observed disagreement between the real code and a TLC-evaluated vector.
type Mismatch struct {
	Sig  string      `json:"sig"`  // stable identifier of the failing input class
	What string      `json:"what"` // which observable differed
	Vec  interface{} `json:"vec"`  // the vector (input + expected values) as emitted by TLC
	Want interface{} `json:"want"`
	Got  interface{} `json:"got"`
}

// Report of one `vh fnvec <kind> <file>` run.
type Report struct {
	Kind          string            `json:"kind"`
	Vectors       int               `json:"vectors"`  // lines read
	Distinct      int               `json:"distinct"` // distinct lines
	Compared      int               `json:"compared"` // single observations compared with an expected value
	MismatchCount int               `json:"mismatch_count"`
	Sigs          map[string]int    `json:"sigs"`
	Mismatches    []Mismatch        `json:"mismatches"`
	Counts        map[string]int    `json:"counts"`
	Samples       []json.RawMessage `json:"samples"`
	seen          map[[20]byte]bool
}

func newReport(kind string) *Report {
	return &Report{Kind: kind, Sigs: map[string]int{}, Counts: map[string]int{}, seen: map[[20]byte]bool{}}
}

// plain renders byte slices as lists of numbers (json would print them in base64)
func plain(v interface{}) interface{} {
	if b, ok := v.([]byte); ok {
		out := make([]int, len(b))
		for i, x := range b {
			out[i] = int(x)
		}
		return out
	}
	return v
}

func (r *Report) miss(sig, what string, vec, want, got interface{}) {
	want, got = plain(want), plain(got)
	r.MismatchCount++
	r.Sigs[sig]++
	if len(r.Mismatches) < 16 && r.Sigs[sig] <= 2 {
		r.Mismatches = append(r.Mismatches, Mismatch{Sig: sig, What: what, Vec: vec, Want: want, Got: got})
	}
}

// eq compares one observation with its expected value and counts it.
func (r *Report) eq(sig, what string, vec, want, got interface{}) bool {
	r.Compared++
	if fmt.Sprint(want) != fmt.Sprint(got) {
		r.miss(sig, what, vec, want, got)
		return false
	}
	return true
}

// forLines calls f for every non-empty line of path (ndjson); it keeps a few samples and counts distinct lines.
func (r *Report) forLines(path string, f func(line []byte) error) error {
	fh, err := os.Open(path)
	if err != nil {
		return err
	}
	defer fh.Close()
	sc := bufio.NewScanner(fh)
	sc.Buffer(make([]byte, 1<<20), 1<<28)
	for sc.Scan() {
		b := sc.Bytes()
		if len(b) == 0 {
			continue
		}
		r.Vectors++
		h := sha1.Sum(b)
		if !r.seen[h] {
			r.seen[h] = true
			r.Distinct++
		}
		if len(r.Samples) < 3 && (r.Vectors == 1 || r.Vectors%9973 == 0) {
			r.Samples = append(r.Samples, append(json.RawMessage{}, b...))
		}
		if err := f(b); err != nil {
			return fmt.Errorf("line %d: %v", r.Vectors, err)
		}
	}
	return sc.Err()
}

func (r *Report) print() int {
	json.NewEncoder(os.Stdout).Encode(r)
	return 0
}

// catch runs f and reports whether it panicked.
func catch(f func()) (panicked bool, msg string) {
	defer func() {
		if p := recover(); p != nil {
			panicked = true
			msg = fmt.Sprint(p)
		}
	}()
	f()
	return
}

var vecKinds = map[string]func(r *Report, path string) error{}

// CmdVec: vh fnvec <kind> <vectors.ndjson>
func CmdVec(args []string) int {
	if len(args) < 2 {
		fmt.Fprintln(os.Stderr, "usage: vh fnvec <kind> <vectors.ndjson>")
		return 2
	}
	f, ok := vecKinds[args[0]]
	if !ok {
		fmt.Fprintln(os.Stderr, "unknown vector kind", args[0])
		return 2
	}
	r := newReport(args[0])
	if err := f(r, args[1]); err != nil {
		fmt.Fprintln(os.Stderr, err)
		return 2
	}
	return r.print()
}
