package fn

import (
	"encoding/json"
	"fmt"
	"math/big"

	"github.com/ethereum/go-ethereum/rlp"

	"verifharness/replay"

	"github.com/Fantom-foundation/lachesis-base/inter/idx"
	"github.com/Fantom-foundation/lachesis-base/inter/pos"
)

// ---------------------------------------------------------------- pattern R: ValidatorsBuilder / Validators (C12)

const nIds = 3 // ids of the model: 1..3

// form reads a built set through its public accessors, in the shape of Validators.tla!Form.
func form(v *pos.Validators) map[string]interface{} {
	ids := v.SortedIDs()
	ws := v.SortedWeights()
	idxs := v.Idxs()
	ix := make([]int, nIds)
	get := make([]uint32, nIds)
	ex := make([]bool, nIds)
	for i := 1; i <= nIds; i++ {
		id := idx.ValidatorID(i)
		if k, ok := idxs[id]; ok {
			ix[i-1] = int(k)
			// GetIdx must agree with Idxs for members
			if v.GetIdx(id) != k {
				ix[i-1] = -1000 - int(v.GetIdx(id))
			}
		} else {
			ix[i-1] = -1
		}
		get[i-1] = uint32(v.Get(id))
		ex[i-1] = v.Exists(id)
	}
	// the by-index accessors must list the same ids/weights as the sorted slices: read through them
	bi := make([]uint32, 0, len(ids))
	bw := make([]uint32, 0, len(ids))
	for i := 0; i < int(v.Len()) && i < len(ids); i++ {
		bi = append(bi, uint32(v.GetID(idx.Validator(i))))
		bw = append(bw, uint32(v.GetWeightByIdx(idx.Validator(i))))
	}
	_ = ws
	idsOut := make([]uint32, len(ids))
	for i, x := range ids {
		idsOut[i] = uint32(x)
	}
	wsOut := make([]uint32, len(ws))
	for i, x := range ws {
		wsOut[i] = uint32(x)
	}
	if fmt.Sprint(bi) != fmt.Sprint(idsOut) || fmt.Sprint(bw) != fmt.Sprint(wsOut) {
		// surfaces as a disagreement with the specification's form
		return map[string]interface{}{"by_index_accessors_disagree": []interface{}{bi, bw, idsOut, wsOut}}
	}
	return map[string]interface{}{"ids": idsOut, "weights": wsOut, "idx": ix, "get": get, "exists": ex,
		"total": uint32(v.TotalWeight()), "len": int(v.Len())}
}

type valInst struct {
	b pos.ValidatorsBuilder
}

func newValidators(pre interface{}) (replay.Inst, error) {
	p := pre.(map[string]interface{})
	in := &valInst{b: pos.NewBuilder()}
	h, _ := p["h"].([]interface{})
	for _, c := range h {
		pr := ints(c)
		in.b.Set(idx.ValidatorID(pr[0]), pos.Weight(pr[1]))
	}
	return in, nil
}

func (in *valInst) Close() {}

func same(a, b interface{}) bool {
	x, _ := json.Marshal(a)
	y, _ := json.Marshal(b)
	return string(x) == string(y)
}

// decodeInto decodes enc into dst (which may already hold a set) and reports whether dst then shows the form f
// and re-encodes to the very same bytes.
func decodeInto(enc []byte, dst *pos.Validators, f map[string]interface{}) (bool, error) {
	if err := rlp.DecodeBytes(enc, dst); err != nil {
		return false, err
	}
	enc2, err := rlp.EncodeToBytes(dst)
	if err != nil {
		return false, err
	}
	return same(f, form(dst)) && string(enc) == string(enc2), nil
}

func (in *valInst) Apply(act map[string]interface{}) (map[string]interface{}, error) {
	if act["op"] != "set" {
		return nil, fmt.Errorf("unknown op %v", act["op"])
	}
	prev := in.b.Build() // the set as it was before this call
	prevForm := form(prev)
	id, _ := act["id"].(float64)
	w, _ := act["w"].(float64)
	in.b.Set(idx.ValidatorID(id), pos.Weight(w))
	v := in.b.Build()
	f := form(v)
	enc, err := rlp.EncodeToBytes(v)
	if err != nil {
		return nil, err
	}
	// into a fresh receiver
	var d pos.Validators
	fresh, err := decodeInto(enc, &d, f)
	if err != nil {
		return nil, err
	}
	// into a receiver that already holds an unrelated set
	ob := pos.NewBuilder()
	ob.Set(1, 3)
	ob.Set(2, 3)
	ob.Set(3, 3)
	ob.Set(9, 1)
	other, err := decodeInto(enc, ob.Build(), f)
	if err != nil {
		return nil, err
	}
	// into a by-value copy of the previous set; the previous set itself must not change
	pc := *prev
	intoPrev, err := decodeInto(enc, &pc, f)
	if err != nil {
		return nil, err
	}
	// builders derived from the set (and from a copy of it) are the caller's own: mutating them must not show in the set
	encBefore := string(enc)
	mutate := func(b pos.ValidatorsBuilder) {
		for i := 1; i <= nIds; i++ {
			if _, ok := b[idx.ValidatorID(i)]; ok {
				b.Set(idx.ValidatorID(i), 0)
			} else {
				b.Set(idx.ValidatorID(i), 2)
			}
		}
		b.Set(9, 1)
	}
	cp := v.Copy()
	mutate(v.Builder())
	mutate(cp.Builder())
	encAfter, err := rlp.EncodeToBytes(v)
	if err != nil {
		return nil, err
	}
	encCopy, err := rlp.EncodeToBytes(cp)
	if err != nil {
		return nil, err
	}
	derivedOK := same(f, form(v)) && same(f, form(cp)) && string(encAfter) == encBefore && string(encCopy) == encBefore
	return map[string]interface{}{
		"unchanged_by_derived_builders": derivedOK,
		"rlp_same":                      fresh,
		"copy_same":                     same(f, form(v.Copy())),
		"builder_same":                  same(f, form(v.Builder().Build())),
		"decode_into_other_same":        other,
		"decode_into_prev_copy_same":    intoPrev,
		"prev_unchanged":                same(prevForm, form(prev)) && same(f, form(v)),
	}, nil
}

func (in *valInst) Project() interface{} { return form(in.b.Build()) }

func ValidatorAdapters() []replay.Adapter {
	return []replay.Adapter{{Name: "validators", New: newValidators}}
}

// ---------------------------------------------------------------- big stakes against TLC-evaluated vectors

func fromLimbs(l []uint32) *big.Int {
	x := new(big.Int)
	for k := len(l) - 1; k >= 0; k-- {
		x.Lsh(x, 16)
		x.Or(x, big.NewInt(int64(l[k])))
	}
	return x
}

func init() {
	// {"ids": [...], "ws": [...], "sorted_ids": canonical order, "sorted_ws": .., "idx": canonical index of ids[k], "total": ..}
	vecKinds["canon"] = func(r *Report, path string) error {
		return r.forLines(path, func(line []byte) error {
			var v struct {
				Ids       []uint32 `json:"ids"`
				Ws        []uint32 `json:"ws"`
				SortedIds []uint32 `json:"sorted_ids"`
				SortedWs  []uint32 `json:"sorted_ws"`
				Idx       []uint32 `json:"idx"`
				Total     uint32   `json:"total"`
			}
			if err := json.Unmarshal(line, &v); err != nil {
				return err
			}
			raw := json.RawMessage(append([]byte{}, line...))
			b := pos.NewBuilder()
			for k, id := range v.Ids {
				b.Set(idx.ValidatorID(id), pos.Weight(v.Ws[k]))
			}
			built := b.Build()
			r.Counts["sets"]++
			if len(v.Ids) >= 13 {
				r.Counts["sets_ge_13"]++
			}
			for _, via := range []string{"", "copy", "builder", "rlp"} {
				vs, err := derive(built, via)
				if err != nil {
					return err
				}
				tag := "canon"
				if via != "" {
					tag = "canon:" + via
				}
				ids := make([]uint32, 0, len(v.Ids))
				for _, x := range vs.SortedIDs() {
					ids = append(ids, uint32(x))
				}
				ws := make([]uint32, 0, len(v.Ids))
				for _, x := range vs.SortedWeights() {
					ws = append(ws, uint32(x))
				}
				ix := make([]uint32, len(v.Ids))
				for k, id := range v.Ids {
					ix[k] = uint32(vs.GetIdx(idx.ValidatorID(id)))
				}
				r.eq(tag+":order", "SortedIDs()", raw, v.SortedIds, ids)
				r.eq(tag+":weights", "SortedWeights()", raw, v.SortedWs, ws)
				r.eq(tag+":index", "GetIdx(id) for the ids as given", raw, v.Idx, ix)
				r.eq(tag+":total", "TotalWeight()", raw, v.Total, uint32(vs.TotalWeight()))
			}
			return nil
		})
	}
	vecKinds["bigstakes"] = func(r *Report, path string) error {
		return r.forLines(path, func(line []byte) error {
			var v struct {
				Stakes  [][]uint32 `json:"stakes"`
				Shift   int        `json:"shift"`
				Weights []uint32   `json:"weights"`
				Ids     []uint32   `json:"ids"`
				Sorted  []uint32   `json:"sorted"`
				Total   uint32     `json:"total"`
			}
			if err := json.Unmarshal(line, &v); err != nil {
				return err
			}
			dec := make([]string, len(v.Stakes))
			bb := pos.NewBigBuilder()
			for i, l := range v.Stakes {
				x := fromLimbs(l)
				dec[i] = x.String()
				bb.Set(idx.ValidatorID(i+1), x)
			}
			vec := map[string]interface{}{"stakes": dec, "shift": v.Shift, "weights": v.Weights, "ids": v.Ids, "total": v.Total}
			var vs *pos.Validators
			if p, msg := catch(func() { vs = bb.Build() }); p {
				r.miss("bigstakes:panic", "ValidatorsBigBuilder.Build() panicked", vec, "no panic", msg)
				return nil
			}
			r.Compared++
			got := make([]uint32, len(v.Stakes))
			for i := range v.Stakes {
				got[i] = uint32(vs.Get(idx.ValidatorID(i + 1)))
			}
			ok := r.eq("bigstakes:weights", "Get(id) for id=1..n", vec, v.Weights, got)
			ids := make([]uint32, 0)
			for _, x := range vs.SortedIDs() {
				ids = append(ids, uint32(x))
			}
			ws := make([]uint32, 0)
			for _, x := range vs.SortedWeights() {
				ws = append(ws, uint32(x))
			}
			ok = r.eq("bigstakes:order", "SortedIDs()", vec, v.Ids, ids) && ok
			ok = r.eq("bigstakes:order", "SortedWeights()", vec, v.Sorted, ws) && ok
			ok = r.eq("bigstakes:total", "TotalWeight()", vec, v.Total, uint32(vs.TotalWeight())) && ok
			r.Counts["sets"]++
			if v.Shift > 0 {
				r.Counts["shifted"]++
			}
			if v.Shift > 0 && len(v.Ids) < len(v.Stakes) {
				r.Counts["with_dropped"]++
			}
			if v.Total >= 1<<30 {
				r.Counts["total_ge_2p30"]++
			}
			return nil
		})
	}
}
