package fn

import (
	"bytes"
	"encoding/json"
	"fmt"

	"github.com/Fantom-foundation/lachesis-base/common/bigendian"
	"github.com/Fantom-foundation/lachesis-base/common/littleendian"
	"github.com/Fantom-foundation/lachesis-base/hash"
	"github.com/Fantom-foundation/lachesis-base/inter/dag"
	"github.com/Fantom-foundation/lachesis-base/inter/idx"
)

func toBytes(a []int) []byte {
	b := make([]byte, len(a))
	for i, x := range a {
		b[i] = byte(x)
	}
	return b
}

func limbsVal(l []int) uint64 {
	var x uint64
	for _, d := range l {
		x = x<<16 | uint64(d)
	}
	return x
}

func sign(x int) int {
	if x < 0 {
		return -1
	}
	if x > 0 {
		return 1
	}
	return 0
}

type idIn struct {
	Epoch   []int `json:"epoch"`
	Lamport []int `json:"lamport"`
	Tail    []int `json:"tail"`
}

// ids builds the event id twice through the real code: MutableBaseEvent.Build and SetID.
func (in idIn) ids() (built, set hash.Event, ep idx.Epoch, lam idx.Lamport) {
	ep, lam = idx.Epoch(limbsVal(in.Epoch)), idx.Lamport(limbsVal(in.Lamport))
	var tail [24]byte
	copy(tail[:], toBytes(in.Tail))
	me := &dag.MutableBaseEvent{}
	me.SetEpoch(ep)
	me.SetLamport(lam)
	built = me.Build(tail).ID()
	me.SetID(tail)
	set = me.ID()
	return
}

// pureDecode: a decoder reads its input; the buffer must hold the same bytes afterwards and a second decode of the same
// buffer must give the same value (the specification's DecBE/DecLE are functions of the byte sequence).
func (r *Report) pureDecode(sig string, vec interface{}, in []byte, dec func([]byte) uint64, want uint64) {
	buf := append([]byte{}, in...)
	v1 := dec(buf)
	v2 := dec(buf)
	r.eq(sig, "decode", vec, want, v1)
	r.eq(sig+"-again", "second decode of the same buffer", vec, want, v2)
	r.eq(sig+"-input", "input buffer after decoding", vec, in, buf)
}

func (r *Report) codec16(vec interface{}, n uint16, be, le []byte) {
	r.pureDecode("codec:be16-decode", vec, be, func(b []byte) uint64 { return uint64(bigendian.BytesToUint16(b)) }, uint64(n))
	r.pureDecode("codec:le16-decode", vec, le, func(b []byte) uint64 { return uint64(littleendian.BytesToUint16(b)) }, uint64(n))
	r.eq("codec:be16", "bigendian.Uint16ToBytes", vec, be, bigendian.Uint16ToBytes(n))
	r.eq("codec:le16", "littleendian.Uint16ToBytes", vec, le, littleendian.Uint16ToBytes(n))
}

func (r *Report) codec32(vec interface{}, n uint32, be, le []byte) {
	r.pureDecode("codec:be32-decode", vec, be, func(b []byte) uint64 { return uint64(bigendian.BytesToUint32(b)) }, uint64(n))
	r.pureDecode("codec:le32-decode", vec, le, func(b []byte) uint64 { return uint64(littleendian.BytesToUint32(b)) }, uint64(n))
	r.eq("codec:be32", "bigendian.Uint32ToBytes", vec, be, bigendian.Uint32ToBytes(n))
	r.eq("codec:le32", "littleendian.Uint32ToBytes", vec, le, littleendian.Uint32ToBytes(n))
	r.eq("codec:idx-epoch", "idx.Epoch.Bytes", vec, be, idx.Epoch(n).Bytes())
	r.eq("codec:idx-event", "idx.Event.Bytes", vec, be, idx.Event(n).Bytes())
	r.eq("codec:idx-lamport", "idx.Lamport.Bytes", vec, be, idx.Lamport(n).Bytes())
	r.eq("codec:idx-frame", "idx.Frame.Bytes", vec, be, idx.Frame(n).Bytes())
	r.eq("codec:idx-pack", "idx.Pack.Bytes", vec, be, idx.Pack(n).Bytes())
	r.eq("codec:idx-validatorid", "idx.ValidatorID.Bytes", vec, be, idx.ValidatorID(n).Bytes())
	r.eq("codec:idx-epoch-decode", "idx.BytesToEpoch", vec, n, uint32(idx.BytesToEpoch(be)))
	r.eq("codec:idx-event-decode", "idx.BytesToEvent", vec, n, uint32(idx.BytesToEvent(be)))
	r.eq("codec:idx-lamport-decode", "idx.BytesToLamport", vec, n, uint32(idx.BytesToLamport(be)))
	r.eq("codec:idx-frame-decode", "idx.BytesToFrame", vec, n, uint32(idx.BytesToFrame(be)))
	r.eq("codec:idx-pack-decode", "idx.BytesToPack", vec, n, uint32(idx.BytesToPack(be)))
	r.eq("codec:idx-validatorid-decode", "idx.BytesToValidatorID", vec, n, uint32(idx.BytesToValidatorID(be)))
}

func (r *Report) codec64(vec interface{}, n uint64, be, le []byte) {
	r.pureDecode("codec:be64-decode", vec, be, func(b []byte) uint64 { return bigendian.BytesToUint64(b) }, n)
	r.pureDecode("codec:le64-decode", vec, le, func(b []byte) uint64 { return littleendian.BytesToUint64(b) }, n)
	r.eq("codec:be64", "bigendian.Uint64ToBytes", vec, be, bigendian.Uint64ToBytes(n))
	r.eq("codec:le64", "littleendian.Uint64ToBytes", vec, le, littleendian.Uint64ToBytes(n))
	r.eq("codec:idx-block", "idx.Block.Bytes", vec, be, idx.Block(n).Bytes())
	r.eq("codec:idx-block-decode", "idx.BytesToBlock", vec, n, uint64(idx.BytesToBlock(be)))
}

// encode with the real big-endian encoder of the width given by the number of limbs
func beOf(l []int) []byte {
	switch len(l) {
	case 1:
		return bigendian.Uint16ToBytes(uint16(limbsVal(l)))
	case 2:
		return bigendian.Uint32ToBytes(uint32(limbsVal(l)))
	}
	return bigendian.Uint64ToBytes(limbsVal(l))
}

func init() {
	vecKinds["codec"] = func(r *Report, path string) error {
		return r.forLines(path, func(line []byte) error {
			var v struct {
				K       string          `json:"k"`
				N0      int             `json:"n0"`
				N       uint32          `json:"n"`
				Be      json.RawMessage `json:"be"`
				Le      json.RawMessage `json:"le"`
				Limbs   []int           `json:"limbs"`
				A       json.RawMessage `json:"a"`
				B       json.RawMessage `json:"b"`
				Cmp     int             `json:"cmp"`
				Epoch   []int           `json:"epoch"`
				Lamport []int           `json:"lamport"`
				Tail    []int           `json:"tail"`
				ID      []int           `json:"id"`
			}
			if err := json.Unmarshal(line, &v); err != nil {
				return err
			}
			r.Counts[v.K]++
			switch v.K {
			case "u16blk":
				var be, le [][]int
				if err := json.Unmarshal(v.Be, &be); err != nil {
					return err
				}
				if err := json.Unmarshal(v.Le, &le); err != nil {
					return err
				}
				for j := range be {
					n := uint16(v.N0 + j)
					vec := map[string]interface{}{"n": n, "be": be[j], "le": le[j]}
					r.codec16(vec, n, toBytes(be[j]), toBytes(le[j]))
					r.Counts["values16"]++
				}
			case "u32", "w":
				var be, le []int
				if err := json.Unmarshal(v.Be, &be); err != nil {
					return err
				}
				if err := json.Unmarshal(v.Le, &le); err != nil {
					return err
				}
				raw := json.RawMessage(append([]byte{}, line...))
				switch {
				case v.K == "u32":
					r.codec32(raw, v.N, toBytes(be), toBytes(le))
					r.Counts["values32"]++
				case len(v.Limbs) == 1:
					r.codec16(raw, uint16(limbsVal(v.Limbs)), toBytes(be), toBytes(le))
				case len(v.Limbs) == 2:
					r.codec32(raw, uint32(limbsVal(v.Limbs)), toBytes(be), toBytes(le))
					r.Counts["values32"]++
					if v.Limbs[0] >= 32768 {
						r.Counts["values32_ge_2p31"]++
					}
				case len(v.Limbs) == 4:
					r.codec64(raw, limbsVal(v.Limbs), toBytes(be), toBytes(le))
					r.Counts["values64"]++
				default:
					return fmt.Errorf("unsupported width %d limbs", len(v.Limbs))
				}
			case "pair":
				var a, b []int
				if err := json.Unmarshal(v.A, &a); err != nil {
					return err
				}
				if err := json.Unmarshal(v.B, &b); err != nil {
					return err
				}
				raw := json.RawMessage(append([]byte{}, line...))
				r.eq(fmt.Sprintf("codec:be%d-order", 16*len(a)), "bytes.Compare of the big-endian encodings", raw, v.Cmp, sign(bytes.Compare(beOf(a), beOf(b))))
				if len(a) == 2 {
					r.eq("codec:idx-order", "bytes.Compare of idx.Lamport.Bytes", raw, v.Cmp,
						sign(bytes.Compare(idx.Lamport(limbsVal(a)).Bytes(), idx.Lamport(limbsVal(b)).Bytes())))
				} else if len(a) == 4 {
					r.eq("codec:idx-order", "bytes.Compare of idx.Block.Bytes", raw, v.Cmp,
						sign(bytes.Compare(idx.Block(limbsVal(a)).Bytes(), idx.Block(limbsVal(b)).Bytes())))
				}
				r.Counts[fmt.Sprintf("pair_cmp_%d", v.Cmp)]++
			case "id":
				raw := json.RawMessage(append([]byte{}, line...))
				built, set, ep, lam := idIn{v.Epoch, v.Lamport, v.Tail}.ids()
				want := toBytes(v.ID)
				r.eq("codec:id-build", "MutableBaseEvent.Build(tail).ID()", raw, want, built.Bytes())
				r.eq("codec:id-setid", "MutableBaseEvent.SetID(tail); ID()", raw, want, set.Bytes())
				r.eq("codec:id-epoch", "hash.Event.Epoch()", raw, uint32(ep), uint32(built.Epoch()))
				r.eq("codec:id-lamport", "hash.Event.Lamport()", raw, uint32(lam), uint32(built.Lamport()))
				// decoding an id given as bytes (not built by this process)
				he := hash.BytesToEvent(want)
				r.eq("codec:id-epoch", "hash.BytesToEvent(id).Epoch()", raw, uint32(ep), uint32(he.Epoch()))
				r.eq("codec:id-lamport", "hash.BytesToEvent(id).Lamport()", raw, uint32(lam), uint32(he.Lamport()))
			case "idpair":
				var a, b idIn
				if err := json.Unmarshal(v.A, &a); err != nil {
					return err
				}
				if err := json.Unmarshal(v.B, &b); err != nil {
					return err
				}
				raw := json.RawMessage(append([]byte{}, line...))
				ia, _, _, _ := a.ids()
				ib, _, _, _ := b.ids()
				if v.Cmp != 0 {
					r.eq("codec:id-order", "bytes.Compare of two event ids", raw, v.Cmp, sign(bytes.Compare(ia.Bytes(), ib.Bytes())))
					r.Counts["idpair_ordered"]++
					if fmt.Sprint(a.Epoch) == fmt.Sprint(b.Epoch) {
						r.Counts["idpair_same_epoch"]++
					}
				}
			default:
				return fmt.Errorf("unknown vector kind %q", v.K)
			}
			return nil
		})
	}
}
