package fn

import (
	"encoding/json"
	"fmt"
	"os"
	"strconv"
	"sync"

	"github.com/ethereum/go-ethereum/rlp"

	"verifharness/replay"

	"github.com/Fantom-foundation/lachesis-base/inter/idx"
	"github.com/Fantom-foundation/lachesis-base/inter/pos"
)

// ---------------------------------------------------------------- pattern R: pos.WeightCounter

type counterInst struct {
	v *pos.Validators
	c *pos.WeightCounter
}

func ints(v interface{}) []int {
	a, _ := v.([]interface{})
	out := make([]int, len(a))
	for i, x := range a {
		f, _ := x.(float64)
		out[i] = int(f)
	}
	return out
}

// derive returns the validator set the way a caller may have obtained it: as built, as a copy, through a derived
// builder, or decoded from its RLP encoding. The specification speaks of validator sets, however they were obtained.
func derive(v *pos.Validators, via string) (*pos.Validators, error) {
	switch via {
	case "copy":
		return v.Copy(), nil
	case "builder":
		return v.Builder().Build(), nil
	case "rlp":
		enc, err := rlp.EncodeToBytes(v)
		if err != nil {
			return nil, err
		}
		d := &pos.Validators{}
		if err := rlp.DecodeBytes(enc, d); err != nil {
			return nil, err
		}
		return d, nil
	}
	return v, nil
}

func newCounterVia(via string) func(pre interface{}) (replay.Inst, error) {
	return func(pre interface{}) (replay.Inst, error) {
		p := pre.(map[string]interface{})
		b := pos.NewBuilder()
		for i, w := range ints(p["vw"]) {
			b.Set(idx.ValidatorID(i+1), pos.Weight(w))
		}
		v, err := derive(b.Build(), via)
		if err != nil {
			return nil, err
		}
		in := &counterInst{v: v, c: v.NewCounter()}
		for _, id := range ints(p["counted"]) {
			in.c.Count(idx.ValidatorID(id))
		}
		return in, nil
	}
}

func (in *counterInst) Close() {}

func (in *counterInst) Apply(act map[string]interface{}) (map[string]interface{}, error) {
	arg, _ := act["arg"].(float64)
	switch act["op"] {
	case "count":
		return map[string]interface{}{"res": in.c.Count(idx.ValidatorID(arg))}, nil
	case "countbyidx":
		return map[string]interface{}{"res": in.c.CountByIdx(idx.Validator(arg))}, nil
	case "hasquorum":
		return map[string]interface{}{"res": in.c.HasQuorum()}, nil
	case "sum":
		return map[string]interface{}{"res": in.c.Sum()}, nil
	}
	return nil, fmt.Errorf("unknown op %v", act["op"])
}

// Project: the counted set is not readable; sum, quorum flag and the set's total/quorum/size are.
func (in *counterInst) Project() interface{} {
	return map[string]interface{}{"sum": in.c.Sum(), "hasquorum": in.c.HasQuorum(), "total": in.v.TotalWeight(),
		"quorum": in.v.Quorum(), "n": in.v.Len()}
}

// ---------------------------------------------------------------- Quorum() against TLC-evaluated vectors

func init() {
	// {"t0": first total, "qs": QSafe(t0), QSafe(t0+1), ...}: Quorum() of a set with that total (hook) and of a real one-member set
	vecKinds["quorum"] = func(r *Report, path string) error {
		return r.forLines(path, func(line []byte) error {
			var blk struct {
				T0 uint32   `json:"t0"`
				Qs []uint32 `json:"qs"`
			}
			if err := json.Unmarshal(line, &blk); err != nil {
				return err
			}
			for k, q := range blk.Qs {
				t := blk.T0 + uint32(k)
				vec := map[string]uint32{"t": t, "q": q}
				r.eq("quorum:hook", "VerifValidatorsWithTotal(t).Quorum()", vec, q, uint32(pos.VerifValidatorsWithTotal(pos.Weight(t)).Quorum()))
				b := pos.NewBuilder()
				b.Set(7, pos.Weight(t))
				vs := b.Build()
				r.eq("quorum:built", "one-member set of weight t: Quorum()", vec, q, uint32(vs.Quorum()))
				r.eq("quorum:total", "one-member set of weight t: TotalWeight()", vec, t, uint32(vs.TotalWeight()))
				for _, via := range []string{"copy", "builder", "rlp"} {
					d, err := derive(vs, via)
					if err != nil {
						return err
					}
					r.eq("quorum:derived-"+via, "the same set obtained by "+via+": Quorum()", vec, q, uint32(d.Quorum()))
					r.eq("quorum:derived-"+via+"-total", "the same set obtained by "+via+": TotalWeight()", vec, t, uint32(d.TotalWeight()))
				}
				r.Counts["totals"]++
				if t >= 1<<30 {
					r.Counts["totals_ge_2p30"]++
				}
			}
			return nil
		})
	}
	// {"ws": weights of ids 1..n, "ok": the total is within the limit, "total": .., "q": ..}: construction near the limit
	vecKinds["build"] = func(r *Report, path string) error {
		return r.forLines(path, func(line []byte) error {
			var v struct {
				Ws    []uint32 `json:"ws"`
				Ok    bool     `json:"ok"`
				Total uint32   `json:"total"`
				Q     uint32   `json:"q"`
			}
			if err := json.Unmarshal(line, &v); err != nil {
				return err
			}
			raw := json.RawMessage(append([]byte{}, line...))
			var vs *pos.Validators
			panicked, _ := catch(func() {
				b := pos.NewBuilder()
				for i, w := range v.Ws {
					b.Set(idx.ValidatorID(i+1), pos.Weight(w))
				}
				vs = b.Build()
			})
			sig := "build:rejected-valid-total"
			if !v.Ok {
				sig = "build:accepted-overweight-total"
			}
			r.eq(sig, "Build() accepted", raw, v.Ok, !panicked)
			if v.Ok {
				r.Counts["accepted"]++
			} else {
				r.Counts["rejected"]++
			}
			if v.Ok && !panicked {
				r.eq("build:total", "TotalWeight()", raw, v.Total, uint32(vs.TotalWeight()))
				r.eq("build:quorum", "Quorum()", raw, v.Q, uint32(vs.Quorum()))
			}
			return nil
		})
	}
}

// ---------------------------------------------------------------- exhaustive sweep of Quorum()

// Segment is a run-length summary of the real Quorum() over the totals From..To (inclusive):
// Quorum(From) = QFrom and Quorum(t+1)-Quorum(t) = Pat[(t-From) mod len(Pat)] for From <= t < To.
// It is a lossless encoding of what the code returned, no expectation is involved; the segments are
// validated by TLC against Quorum.tla (QuorumSweep.tla).
type Segment struct {
	From  int64   `json:"from"`
	To    int64   `json:"to"`
	QFrom int64   `json:"qfrom"`
	Pat   []int64 `json:"pat"`
}

func clamp(x int64) int64 {
	const m = 1<<31 - 1
	if x > m {
		return m
	}
	if x < -m {
		return -m
	}
	return x
}

func quorumOf(t int64) int64 {
	return int64(pos.VerifValidatorsWithTotal(pos.Weight(t)).Quorum())
}

func sweep(from, to int64) []Segment {
	var segs []Segment
	t := from
	for t <= to {
		s := Segment{From: t, QFrom: clamp(quorumOf(t)), Pat: []int64{}}
		for i := int64(1); i <= 3 && t+i <= to; i++ {
			s.Pat = append(s.Pat, clamp(quorumOf(t+i)-quorumOf(t+i-1)))
		}
		end := t + int64(len(s.Pat))
		if len(s.Pat) == 3 {
			prev := quorumOf(end)
			k := 0
			for end < to {
				cur := quorumOf(end + 1)
				if clamp(cur-prev) != s.Pat[k] {
					break
				}
				prev = cur
				end++
				k++
				if k == 3 {
					k = 0
				}
			}
		}
		s.To = end
		segs = append(segs, s)
		t = end + 1
	}
	return segs
}

// CmdSweep: vh fnsweep <from> <to> <chunks> <out.ndjson> ; runs every total through the real Quorum().
func CmdSweep(args []string) int {
	if len(args) < 4 {
		fmt.Fprintln(os.Stderr, "usage: vh fnsweep <from> <to> <chunks> <out>")
		return 2
	}
	from, _ := strconv.ParseInt(args[0], 10, 64)
	to, _ := strconv.ParseInt(args[1], 10, 64)
	chunks, _ := strconv.ParseInt(args[2], 10, 64)
	if chunks < 1 {
		chunks = 1
	}
	per := (to - from + chunks) / chunks
	res := make([][]Segment, chunks)
	var wg sync.WaitGroup
	sem := make(chan struct{}, 6)
	for c := int64(0); c < chunks; c++ {
		a := from + c*per
		b := a + per - 1
		if b > to {
			b = to
		}
		if a > b {
			continue
		}
		wg.Add(1)
		go func(c, a, b int64) {
			defer wg.Done()
			sem <- struct{}{}
			res[c] = sweep(a, b)
			<-sem
		}(c, a, b)
	}
	wg.Wait()
	out, err := os.Create(args[3])
	if err != nil {
		fmt.Fprintln(os.Stderr, err)
		return 2
	}
	defer out.Close()
	enc := json.NewEncoder(out)
	n := 0
	var totals int64
	for _, ss := range res {
		for _, s := range ss {
			enc.Encode(s)
			n++
			totals += s.To - s.From + 1
		}
	}
	json.NewEncoder(os.Stdout).Encode(map[string]interface{}{"segments": n, "totals": totals, "from": from, "to": to})
	return 0
}

func CounterAdapters() []replay.Adapter {
	return []replay.Adapter{{Name: "weightcounter", New: newCounterVia("")}, {Name: "weightcounter-copy", New: newCounterVia("copy")},
		{Name: "weightcounter-builder", New: newCounterVia("builder")}, {Name: "weightcounter-rlp", New: newCounterVia("rlp")}}
}
