package fn

import (
	"bufio"
	"encoding/json"
	"fmt"
	"os"
	"strconv"

	"github.com/Fantom-foundation/lachesis-base/utils/piecefunc"
)

func init() {
	// {"dots": [[x, y], ...], "valid": ValidDots, "xs": [...], "ys": [Get(dots, x) ...]}
	vecKinds["piecefunc"] = func(r *Report, path string) error {
		return r.forLines(path, func(line []byte) error {
			var v struct {
				Dots  [][2]uint64 `json:"dots"`
				Valid bool        `json:"valid"`
				Xs    []uint64    `json:"xs"`
				Ys    []uint64    `json:"ys"`
			}
			if err := json.Unmarshal(line, &v); err != nil {
				return err
			}
			dots := make([]piecefunc.Dot, len(v.Dots))
			for i, d := range v.Dots {
				dots[i] = piecefunc.Dot{X: d[0], Y: d[1]}
			}
			var f func(uint64) uint64
			panicked, msg := catch(func() { f = piecefunc.NewFunc(dots) })
			vec := map[string]interface{}{"dots": v.Dots, "valid": v.Valid}
			sig := "piecefunc:rejected-valid-list"
			if !v.Valid {
				sig = "piecefunc:accepted-invalid-list"
				r.Counts["invalid_lists"]++
			} else {
				r.Counts["valid_lists"]++
			}
			if !r.eq(sig, "NewFunc accepted the dot list ("+msg+")", vec, v.Valid, !panicked) || panicked {
				return nil
			}
			for k, x := range v.Xs {
				var got uint64
				if p, m := catch(func() { got = f(x) }); p {
					r.miss("piecefunc:get-panic", "f(x) panicked", map[string]interface{}{"dots": v.Dots, "x": x}, v.Ys[k], m)
					continue
				}
				// class of the argument, for the signature and the coverage counters only
				cls := "between"
				switch {
				case x < dots[0].X:
					cls = "before-first"
				case x > dots[len(dots)-1].X:
					cls = "after-last"
				default:
					for _, d := range dots {
						if d.X == x {
							cls = "at-dot"
						}
					}
				}
				r.Counts["x_"+cls]++
				r.eq("piecefunc:value:"+cls, "f(x)", map[string]interface{}{"dots": v.Dots, "x": x}, v.Ys[k], got)
			}
			return nil
		})
	}
}

// CmdPiece: vh fnpiece <in.ndjson> <out.ndjson>. Runs the real NewFunc/Get on inputs whose numbers are decimal
// strings (full uint64 range) and records what the code did; the record is validated by Apalache against PieceFunc.tla.
func CmdPiece(args []string) int {
	if len(args) < 2 {
		fmt.Fprintln(os.Stderr, "usage: vh fnpiece <in> <out>")
		return 2
	}
	in, err := os.Open(args[0])
	if err != nil {
		fmt.Fprintln(os.Stderr, err)
		return 2
	}
	defer in.Close()
	out, err := os.Create(args[1])
	if err != nil {
		fmt.Fprintln(os.Stderr, err)
		return 2
	}
	defer out.Close()
	enc := json.NewEncoder(out)
	sc := bufio.NewScanner(in)
	sc.Buffer(make([]byte, 1<<20), 1<<26)
	n := 0
	for sc.Scan() {
		if len(sc.Bytes()) == 0 {
			continue
		}
		var c struct {
			Dots [][2]string `json:"dots"`
			Xs   []string    `json:"xs"`
		}
		if err := json.Unmarshal(sc.Bytes(), &c); err != nil {
			fmt.Fprintln(os.Stderr, err)
			return 2
		}
		dots := make([]piecefunc.Dot, len(c.Dots))
		for i, d := range c.Dots {
			x, e1 := strconv.ParseUint(d[0], 10, 64)
			y, e2 := strconv.ParseUint(d[1], 10, 64)
			if e1 != nil || e2 != nil {
				fmt.Fprintln(os.Stderr, "bad number in", d)
				return 2
			}
			dots[i] = piecefunc.Dot{X: x, Y: y}
		}
		var f func(uint64) uint64
		panicked, _ := catch(func() { f = piecefunc.NewFunc(dots) })
		ys := []string{}
		if !panicked {
			for _, xs := range c.Xs {
				x, e := strconv.ParseUint(xs, 10, 64)
				if e != nil {
					fmt.Fprintln(os.Stderr, "bad number", xs)
					return 2
				}
				var y uint64
				if p, _ := catch(func() { y = f(x) }); p {
					ys = append(ys, "panic") // the function itself panicked (never allowed by the specification)
					continue
				}
				ys = append(ys, strconv.FormatUint(y, 10))
			}
		}
		enc.Encode(map[string]interface{}{"dots": c.Dots, "xs": c.Xs, "panicked": panicked, "ys": ys})
		n++
	}
	fmt.Printf("{\"cases\": %d}\n", n)
	return 0
}
