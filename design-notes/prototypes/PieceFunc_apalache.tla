---- MODULE PF4 ----
EXTENDS Integers
VARIABLES
  \* @type: Int;
  x0,
  \* @type: Int;
  x1,
  \* @type: Int;
  y0,
  \* @type: Int;
  y1,
  \* @type: Int;
  x
U == 1000000
MaxU64 == 18446744073709551615
MaxVal == MaxU64 \div U - 1
Ratio == ((x - x0) * U) \div (x1 - x0)
Res == (y0 * (U - Ratio)) \div U + (y1 * Ratio) \div U
Init == /\ x0 \in 0..MaxVal /\ x1 \in 0..MaxVal /\ y0 \in 0..MaxVal /\ y1 \in 0..MaxVal /\ x \in 0..MaxVal
        /\ x0 < x1 /\ x0 <= x /\ x <= x1
Next == UNCHANGED <<x0, x1, y0, y1, x>>
Hi == IF y0 > y1 THEN y0 ELSE y1
Lo == IF y0 > y1 THEN y1 ELSE y0
NoOverflow == (x - x0) * U <= MaxU64 /\ Ratio <= U /\ y0 * (U - Ratio) <= MaxU64 /\ y1 * Ratio <= MaxU64
Bounds == Res <= Hi /\ Res >= Lo - 1
D == x1 - x0
DY == IF y1 >= y0 THEN y1 - y0 ELSE y0 - y1
ExactTimesD == y0 * D + (y1 - y0) * (x - x0)
Err == IF Res * D >= ExactTimesD THEN Res * D - ExactTimesD ELSE ExactTimesD - Res * D
Accurate == U * Err <= (DY + 2 * U) * D
Tight == U * Err <= (DY + 1 * U) * D
====
