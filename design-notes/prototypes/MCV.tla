---- MODULE MCV ----
EXTENDS VecIndex
W2 == <<1,1>>
W2b == <<2,1>>
W3 == <<1,1,1>>
W3b == <<2,1,1>>
W2c == <<3,1>>
====
