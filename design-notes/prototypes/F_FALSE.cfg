CONSTANTS DBs <- MDBs Keys <- MKeys Vals <- MVals MaxFlush = 2 MarkOthers = FALSE
SPECIFICATION Spec
INVARIANT CrashConsistent
CHECK_DEADLOCK FALSE
