---- MODULE MCP ----
EXTENDS Pool
MDBs == {"A","B"}
MKeys == {"k"}
MVals == {1,2}
====
