CONSTANTS DBs <- MDBs Keys <- MKeys Vals <- MVals MaxFlush = 2 DropsFirst = FALSE
SPECIFICATION Spec
INVARIANT CrashConsistent
CHECK_DEADLOCK FALSE
