---- MODULE SemTrace ----
EXTENDS Integers, Sequences, FiniteSets, TLC, Json, IOUtils
Trace == ndJsonDeserialize(IOEnv.TRACE)
Cap == 1
VARIABLES l, held, pend   \* pend: g -> [op, num, done, res]
vars == <<l, held, pend>>
Init == TLCSet(1, 1) /\ l = 1 /\ held = 0 /\ pend = <<>>
G == {1,2}
Call == /\ l <= Len(Trace) /\ Trace[l].t = "call"
        /\ Trace[l].g \notin DOMAIN pend
        /\ pend' = [g \in DOMAIN pend \cup {Trace[l].g} |-> IF g = Trace[l].g THEN [op |-> Trace[l].op, num |-> Trace[l].num, done |-> FALSE, res |-> FALSE] ELSE pend[g]]
        /\ l' = l + 1 /\ UNCHANGED held
\* internal linearization point of a pending call
Lin(g) == /\ g \in DOMAIN pend /\ ~pend[g].done
          /\ \/ /\ pend[g].op = "acq" /\ held + pend[g].num <= Cap
                /\ held' = held + pend[g].num
                /\ pend' = [pend EXCEPT ![g].done = TRUE, ![g].res = TRUE]
             \/ /\ pend[g].op = "rel"
                /\ held' = held - pend[g].num
                /\ pend' = [pend EXCEPT ![g].done = TRUE, ![g].res = TRUE]
          /\ UNCHANGED l
Ret == /\ l <= Len(Trace) /\ Trace[l].t = "ret"
       /\ Trace[l].g \in DOMAIN pend /\ pend[Trace[l].g].done /\ pend[Trace[l].g].res = Trace[l].ok
       /\ pend' = [g \in DOMAIN pend \ {Trace[l].g} |-> pend[g]]
       /\ l' = l + 1 /\ UNCHANGED held
Next == Call \/ Ret \/ \E g \in G : Lin(g)
Spec == Init /\ [][Next]_vars
HW == TLCSet(1, IF l > TLCGet(1) THEN l ELSE TLCGet(1))
Mark == l >= 0 /\ HW
Accepted == TLCGet(1) = Len(Trace) + 1
Inv == held <= Cap
====
