CONSTANTS N = 2  W <- W2 MaxSeq = 5 MaxEv = 9 Forkers <- F2 HeadsOnly = FALSE
SPECIFICATION Spec
INVARIANTS AtroposIsRoot NoDoubleConfirm
PROPERTY BlocksMonotone
