CONSTANTS N = 2 W <- W2 MaxEv = 6 MaxSeq = 4 MaxForks = 2
SPECIFICATION Spec
INVARIANTS FCMatches MergedMatches
CHECK_DEADLOCK FALSE
