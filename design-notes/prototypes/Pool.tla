---- MODULE Pool ----
EXTENDS Integers, FiniteSets, TLC
CONSTANTS DBs, Keys, Vals, MaxFlush, DropsFirst   \* DropsFirst = TRUE models the code as it is

Absent == 0
UNSET == -1
NoMark == <<"none", 0>>
EmptyData == [k \in Keys |-> Absent]

VARIABLES dur,     \* db -> [ex, data, mark]
          over,    \* db -> [key -> Vals \cup {Absent (tombstone), UNSET}]
          opened,  \* dbs with a wrapper in the pool
          qdrop,   \* queued drops
          pc,      \* "idle" | "drops" | "dirty" | "data" | "clean" | "crashed"
          todo,    \* dbs still to handle in the current phase
          fid,     \* id of the running / last flush
          hist,    \* flush id -> db -> [ex, data]
          res      \* restart result
vars == <<dur, over, opened, qdrop, pc, todo, fid, hist, res>>

Snap == [d \in DBs |-> [ex |-> dur[d].ex, data |-> dur[d].data]]
Init == /\ dur = [d \in DBs |-> [ex |-> FALSE, data |-> EmptyData, mark |-> NoMark]]
        /\ over = [d \in DBs |-> [k \in Keys |-> UNSET]]
        /\ opened = {} /\ qdrop = {} /\ pc = "idle" /\ todo = {} /\ fid = 0
        /\ hist = <<>> /\ res = "-"

\* ---------------- application (only between flushes)
Open(d) == pc = "idle" /\ d \notin opened /\ d \notin qdrop /\ opened' = opened \cup {d}
           /\ UNCHANGED <<dur, over, qdrop, pc, todo, fid, hist, res>>
Put(d, k, v) == pc = "idle" /\ d \in opened /\ d \notin qdrop
                /\ over' = [over EXCEPT ![d][k] = v]
                /\ UNCHANGED <<dur, opened, qdrop, pc, todo, fid, hist, res>>
Drop(d) == pc = "idle" /\ d \in opened /\ d \notin qdrop /\ qdrop' = qdrop \cup {d}
           /\ UNCHANGED <<dur, over, opened, pc, todo, fid, hist, res>>

\* ---------------- flush, one durable micro-step per action
FirstPhase == IF DropsFirst THEN "drops" ELSE "dirty"
StartFlush == /\ pc = "idle" /\ fid < MaxFlush /\ fid' = fid + 1
              /\ pc' = FirstPhase
              /\ todo' = IF DropsFirst THEN qdrop ELSE opened
              /\ UNCHANGED <<dur, over, opened, qdrop, hist, res>>
DoDrop(d) == /\ pc = "drops" /\ d \in todo
             /\ dur' = [dur EXCEPT ![d] = [ex |-> FALSE, data |-> EmptyData, mark |-> NoMark]]
             /\ over' = [over EXCEPT ![d] = [k \in Keys |-> UNSET]]
             /\ opened' = opened \ {d} /\ qdrop' = qdrop \ {d} /\ todo' = todo \ {d}
             /\ UNCHANGED <<pc, fid, hist, res>>
EndDrops == /\ pc = "drops" /\ todo = {}
            /\ pc' = IF DropsFirst THEN "dirty" ELSE "data"
            /\ todo' = opened
            /\ UNCHANGED <<dur, over, opened, qdrop, fid, hist, res>>
DoDirty(d) == /\ pc = "dirty" /\ d \in todo
              /\ dur' = [dur EXCEPT ![d].ex = TRUE, ![d].mark = <<"D", fid>>]
              /\ todo' = todo \ {d}
              /\ UNCHANGED <<over, opened, qdrop, pc, fid, hist, res>>
EndDirty == /\ pc = "dirty" /\ todo = {}
            /\ pc' = IF DropsFirst THEN "data" ELSE "drops"
            /\ todo' = IF DropsFirst THEN opened ELSE qdrop
            /\ UNCHANGED <<dur, over, opened, qdrop, fid, hist, res>>
DoData(d) == /\ pc = "data" /\ d \in todo
             /\ dur' = [dur EXCEPT ![d].data = [k \in Keys |-> IF over[d][k] = UNSET THEN dur[d].data[k] ELSE over[d][k]]]
             /\ over' = [over EXCEPT ![d] = [k \in Keys |-> UNSET]]
             /\ todo' = todo \ {d}
             /\ UNCHANGED <<opened, qdrop, pc, fid, hist, res>>
EndData == /\ pc = "data" /\ todo = {} /\ pc' = "clean" /\ todo' = opened
           /\ UNCHANGED <<dur, over, opened, qdrop, fid, hist, res>>
DoClean(d) == /\ pc = "clean" /\ d \in todo
              /\ dur' = [dur EXCEPT ![d].mark = <<"C", fid>>]
              /\ todo' = todo \ {d}
              /\ IF todo = {d}   \* the flush completes with its last clean mark
                 THEN /\ pc' = "idle"
                      /\ hist' = [i \in DOMAIN hist \cup {fid} |-> IF i = fid THEN [x \in DBs |-> [ex |-> dur'[x].ex, data |-> dur'[x].data]] ELSE hist[i]]
                 ELSE UNCHANGED <<pc, hist>>
              /\ UNCHANGED <<over, opened, qdrop, fid, res>>
EndFlush == /\ pc = "clean" /\ todo = {} /\ pc' = "idle"
            /\ hist' = [i \in DOMAIN hist \cup {fid} |-> IF i = fid THEN Snap ELSE hist[i]]
            /\ UNCHANGED <<dur, over, opened, qdrop, todo, fid, res>>

\* ---------------- crash + restart over the surviving databases (CheckDBsSynced)
Surv == {d \in DBs : dur[d].ex}
Marks == {dur[d].mark : d \in Surv}
Verdict ==
  IF \E m \in Marks : m[1] = "D" THEN "dirty"
  ELSE LET cm == {m \in Marks : m[1] = "C"} IN
       IF Cardinality(cm) > 1 THEN "unsynced"
       ELSE IF cm # {} /\ NoMark \in Marks THEN "noninit"
       ELSE IF cm = {} THEN "ok0" ELSE "ok"
Crash == /\ pc # "crashed" /\ pc' = "crashed" /\ res' = Verdict
         /\ UNCHANGED <<dur, over, opened, qdrop, todo, fid, hist>>

Next == \/ \E d \in DBs : Open(d) \/ Drop(d) \/ DoDrop(d) \/ DoDirty(d) \/ DoData(d) \/ DoClean(d)
        \/ \E d \in DBs, k \in Keys, v \in Vals \cup {Absent} : Put(d, k, v)
        \/ StartFlush \/ EndDrops \/ EndDirty \/ EndData \/ EndFlush \/ Crash
Spec == Init /\ [][Next]_vars

OkId == (CHOOSE m \in Marks : m[1] = "C")[2]
CrashConsistent ==
  pc = "crashed" =>
    \/ res \in {"dirty", "unsynced", "noninit"}
    \/ res = "ok0" /\ \A d \in DBs : dur[d].data = EmptyData
    \/ res = "ok" /\ OkId \in DOMAIN hist
                  /\ \A d \in DBs : dur[d].data = hist[OkId][d].data   \* absent == empty
====
