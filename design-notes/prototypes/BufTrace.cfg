SPECIFICATION Spec
CONSTRAINT Mark
POSTCONDITION Accepted
CHECK_DEADLOCK FALSE
