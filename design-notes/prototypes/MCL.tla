---- MODULE MCL ----
EXTENDS LProto
W2 == <<3,1>>
W2b == <<1,1>>
W3 == <<2,1,1>>
W3e == <<1,1,1>>
W4 == <<1,1,1,1>>
NoForkers == {}
F2 == {2}
F3 == {3}
====
