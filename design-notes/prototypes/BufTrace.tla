---- MODULE BufTrace ----
EXTENDS Integers, Sequences, FiniteSets, TLC, Json, IOUtils
Trace == ndJsonDeserialize(IOEnv.TRACE)
ToSet(s) == {s[i] : i \in 1..Len(s)}
VARIABLES l, parents, limit, connected, copies, scen
vars == <<l, parents, limit, connected, copies, scen>>
T == Trace[l]
Is(op) == l <= Len(Trace) /\ T.op = op /\ l' = l + 1
Init == TLCSet(1, 1) /\ l = 1 /\ parents = <<>> /\ limit = 0 /\ connected = {} /\ copies = <<>> /\ scen = 0
Reset == Is("reset") /\ parents' = T.parents /\ limit' = T.limit /\ connected' = {} /\ copies' = <<>> /\ scen' = T.scen
Push == /\ Is("push") /\ T.copy \notin DOMAIN copies
        /\ copies' = [c \in DOMAIN copies \cup {T.copy} |-> IF c = T.copy THEN [ev |-> T.ev, proc |-> 0, rel |-> FALSE] ELSE copies[c]]
        /\ UNCHANGED <<parents, limit, connected, scen>>
Process == /\ Is("process") /\ T.copy \in DOMAIN copies
           /\ copies[T.copy].ev = T.ev
           /\ copies[T.copy].proc = 0              \* at most once per pushed copy
           /\ ~copies[T.copy].rel                  \* never after it was reported released
           /\ ToSet(parents[T.ev]) \subseteq connected   \* parents first
           /\ copies' = [copies EXCEPT ![T.copy].proc = 1]
           /\ connected' = IF T.ok THEN connected \cup {T.ev} ELSE connected
           /\ UNCHANGED <<parents, limit, scen>>
Released == /\ Is("released") /\ T.copy \in DOMAIN copies /\ ~copies[T.copy].rel
            /\ copies' = [copies EXCEPT ![T.copy].rel = TRUE]
            /\ UNCHANGED <<parents, limit, connected, scen>>
Pushed == Is("pushed") /\ T.num <= limit /\ UNCHANGED <<parents, limit, connected, copies, scen>>
Clear == Is("clear") /\ UNCHANGED <<parents, limit, connected, copies, scen>>
Cleared == /\ Is("cleared")
           /\ \A c \in DOMAIN copies : copies[c].rel                       \* every push released by Clear
           /\ (T.fail = 0 /\ limit >= Len(parents)) => connected = 1..Len(parents)   \* completeness
           /\ UNCHANGED <<parents, limit, connected, copies, scen>>
Next == Reset \/ Push \/ Process \/ Released \/ Pushed \/ Clear \/ Cleared
Spec == Init /\ [][Next]_vars
Mark == TLCSet(1, IF l > TLCGet(1) THEN l ELSE TLCGet(1))
Accepted == IF TLCGet(1) = Len(Trace) + 1 THEN TRUE ELSE PrintT(<<"REJECTED at line", TLCGet(1), Trace[TLCGet(1)]>>) /\ FALSE
====
