---- MODULE MCF ----
EXTENDS Flagged
MDBs == {"A","B"}
MKeys == {"k"}
MVals == {1,2}
====
