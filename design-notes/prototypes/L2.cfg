CONSTANTS N = 2  W <- W2 MaxSeq = 5 MaxEv = 8 Forkers <- NoForkers HeadsOnly = TRUE
SPECIFICATION Spec
INVARIANTS AtroposIsRoot NoDoubleConfirm
PROPERTY BlocksMonotone
