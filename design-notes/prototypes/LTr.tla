---- MODULE LTr ----
EXTENDS Integers, Sequences, FiniteSets, TLC, Json, IOUtils

Trace == ndJsonDeserialize(IOEnv.TRACE)
W == Trace[1].w                      \* weights in canonical order
N == Len(W)
V == 1..N
RECURSIVE SumW(_)
SumW(S) == IF S = {} THEN 0 ELSE LET v == CHOOSE x \in S : TRUE IN W[v] + SumW(S \ {v})
Quorum == (2 * SumW(V)) \div 3 + 1
ToSet(s) == {s[i] : i \in 1..Len(s)}

VARIABLES l,        \* next trace line
          ev,       \* id -> [cr, sq, sp, fr]
          anc,      \* id -> set of ids
          fs,       \* id -> set of validators whose fork is visible
          roots,    \* sequence: frame -> set of root ids
          lastDec,  \* last decided frame
          confirmed,
          phase
vars == <<l, ev, anc, fs, roots, lastDec, confirmed, phase>>

Ids == DOMAIN ev
ForkSeenIn(A, evf, v) == \E x \in A, y \in A : x < y /\ evf[x].cr = v /\ evf[y].cr = v /\ evf[x].sq = evf[y].sq

\* a (ancestors A, forkseen F) forkless caused by b
FCs(A, F, b, evf, ancf) ==
  /\ evf[b].cr \notin F
  /\ SumW({evf[x].cr : x \in {x \in A : b \in ancf[x]}} \ F) >= Quorum
FC(a, b) == FCs(anc[a], fs[a], b, ev, anc)

RootsAt(f) == IF f >= 1 /\ f <= Len(roots) THEN roots[f] ELSE {}
FCQ(A, F, f, evf, ancf) == SumW({ev[r].cr : r \in {r \in RootsAt(f) : FCs(A, F, r, evf, ancf)}}) >= Quorum
RECURSIVE Climb(_,_,_,_,_,_)
Climb(A, F, f, cap, evf, ancf) == IF f < cap /\ FCQ(A, F, f, evf, ancf) THEN Climb(A, F, f+1, cap, evf, ancf) ELSE f

\* ----- election on the current state (after the event was added), deciding frame d
RECURSIVE VoteYes(_,_,_,_)
VoteYes(r, f, v, d) ==
  IF f = d + 1 THEN \E x \in RootsAt(d) : ev[x].cr = v /\ FC(r, x)
  ELSE LET obs == {x \in RootsAt(f-1) : FC(r, x)}
           yes == SumW({ev[x].cr : x \in {x \in obs : VoteYes(x, f-1, v, d)}})
           no  == SumW({ev[x].cr : x \in {x \in obs : ~VoteYes(x, f-1, v, d)}})
       IN yes >= no
Tally(r, f, v, d) ==
  LET obs == {x \in RootsAt(f-1) : FC(r, x)}
      yes == SumW({ev[x].cr : x \in {x \in obs : VoteYes(x, f-1, v, d)}})
      no  == SumW({ev[x].cr : x \in {x \in obs : ~VoteYes(x, f-1, v, d)}})
  IN IF yes >= Quorum THEN "Y" ELSE IF no >= Quorum THEN "N" ELSE "-"
SubjDecision(v, d) ==
  LET cands == {c \in Ids \X ((d+2)..Len(roots)) : c[1] \in RootsAt(c[2])}
  IN IF \E c \in cands : Tally(c[1], c[2], v, d) = "Y" THEN "Y"
     ELSE IF \E c \in cands : Tally(c[1], c[2], v, d) = "N" THEN "N" ELSE "-"
RECURSIVE FirstYes(_,_)
FirstYes(d, i) == IF i > N THEN 0
                  ELSE LET dec == SubjDecision(i, d) IN
                       IF dec = "-" THEN 0 ELSE IF dec = "Y" THEN i ELSE FirstYes(d, i+1)
AtroposOf(d) ==
  LET v == FirstYes(d, 1) IN
  IF v = 0 THEN 0
  ELSE CHOOSE x \in RootsAt(d) : ev[x].cr = v /\ \E r \in RootsAt(d+1) : FC(r, x)

CheaterSeq(F) == LET RECURSIVE B(_) B(i) == IF i > N THEN <<>> ELSE (IF i \in F THEN <<i>> ELSE <<>>) \o B(i+1) IN B(1)

\* ----- trace actions
Init == phase = "add" /\ l = 2 /\ ev = <<>> /\ anc = <<>> /\ fs = <<>> /\ roots = <<>> /\ lastDec = 0 /\ confirmed = {}

RECURSIVE ExpectBlocks(_,_,_)
\* checks logged blocks bs[k..] against the reference deciding from frame d; returns [ok, d, conf]
ExpectBlocks(bs, d, conf) ==
  LET a == AtroposOf(d) IN
  IF a = 0 THEN [ok |-> bs = <<>>, d |-> d, conf |-> conf]
  ELSE IF bs = <<>> THEN [ok |-> FALSE, d |-> d, conf |-> conf]
  ELSE LET b == Head(bs) IN
       IF b.atr = a /\ b.ch = CheaterSeq(fs[a]) /\ ToSet(b.evs) = anc[a] \ conf /\ Len(b.evs) = Cardinality(anc[a] \ conf)
       THEN ExpectBlocks(Tail(bs), d+1, conf \cup anc[a])
       ELSE [ok |-> FALSE, d |-> d, conf |-> conf]

Process ==
  /\ phase = "add" /\ phase' = "decide"
  /\ UNCHANGED <<lastDec, confirmed>>
  /\ l <= Len(Trace) /\ Trace[l].op = "p" /\ Trace[l].ok
  /\ LET t == Trace[l]
         id == t.id
         ps == ToSet(t.ps)
         A == {id} \cup UNION {anc[p] : p \in ps}
         evN == [x \in Ids \cup {id} |-> IF x = id THEN [cr |-> t.cr, sq |-> t.sq, sp |-> t.sp, fr |-> t.fr] ELSE ev[x]]
         F == UNION {fs[p] : p \in ps} \cup {v \in V : ForkSeenIn(A, evN, v)}
         sf == IF t.sp = 0 THEN 0 ELSE ev[t.sp].fr
         ancN == [x \in Ids \cup {id} |-> IF x = id THEN A ELSE anc[x]]
         reach == Climb(A, F, sf, t.fr, evN, ancN)          \* all frames sf..fr-1 must be justified
         okFrame == IF t.sp = 0 THEN t.fr = 1 ELSE (t.fr >= sf /\ reach = t.fr)
         maxF == IF Len(roots) > t.fr THEN Len(roots) ELSE t.fr
         rootsN == [f \in 1..maxF |-> RootsAt(f) \cup (IF f > sf /\ f <= t.fr THEN {id} ELSE {})]
     IN /\ okFrame
        /\ ev' = evN
        /\ anc' = ancN
        /\ fs' = [x \in Ids \cup {id} |-> IF x = id THEN F ELSE fs[x]]
        /\ roots' = rootsN
        /\ l' = l

Decide ==
  /\ phase = "decide" /\ phase' = "add"
  /\ UNCHANGED <<ev, anc, fs, roots>>
  /\ LET t == Trace[l]
         sf == IF t.sp = 0 THEN 0 ELSE ev[t.sp].fr
         res == IF t.fr > sf THEN ExpectBlocks(t.blocks, lastDec + 1, confirmed)
                ELSE [ok |-> t.blocks = <<>>, d |-> lastDec + 1, conf |-> confirmed] IN
       /\ res.ok
       /\ lastDec' = res.d - 1
       /\ confirmed' = res.conf
  /\ l' = l + 1

Next == Process \/ Decide
Spec == Init /\ [][Next]_vars
Accepted == TLCGet("stats").diameter = 2 * (Len(Trace) - 1) + 1
====
