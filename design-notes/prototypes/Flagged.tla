---- MODULE Flagged ----
\* flaggedproducer: writes go straight to the databases; first write after a flush puts a dirty mark;
\* Flush(id) writes clean marks; Drop is immediate. MarkOthers = TRUE is the candidate repair:
\* before a drop, every other open database gets its dirty mark.
EXTENDS Integers, FiniteSets, TLC
CONSTANTS DBs, Keys, Vals, MaxFlush, MarkOthers
Absent == 0
NoMark == <<"none", 0>>
EmptyData == [k \in Keys |-> Absent]
VARIABLES dur, opened, dirtyFlag, pc, todo, fid, hist, res
vars == <<dur, opened, dirtyFlag, pc, todo, fid, hist, res>>
Init == /\ dur = [d \in DBs |-> [ex |-> FALSE, data |-> EmptyData, mark |-> NoMark]]
        /\ opened = {} /\ dirtyFlag = [d \in DBs |-> FALSE] /\ pc = <<"idle", "">> /\ todo = {} /\ fid = 0 /\ hist = <<>> /\ res = "-"
Open(d) == pc = <<"idle", "">> /\ d \notin opened /\ opened' = opened \cup {d}
           /\ dur' = [dur EXCEPT ![d].ex = TRUE] /\ dirtyFlag' = [dirtyFlag EXCEPT ![d] = FALSE]
           /\ UNCHANGED <<pc, todo, fid, hist, res>>
\* a write is two durable steps when the database is clean: mark, then data
MarkDirty(d) == pc = <<"idle", "">> /\ d \in opened /\ ~dirtyFlag[d]
                /\ dirtyFlag' = [dirtyFlag EXCEPT ![d] = TRUE]
                /\ dur' = [dur EXCEPT ![d].mark = <<"D", 0>>]
                /\ UNCHANGED <<opened, pc, todo, fid, hist, res>>
Put(d, k, v) == pc = <<"idle", "">> /\ d \in opened /\ dirtyFlag[d]
                /\ dur' = [dur EXCEPT ![d].data[k] = v]
                /\ UNCHANGED <<opened, dirtyFlag, pc, todo, fid, hist, res>>
\* drop: optionally mark the others first (one durable step each), then remove
StartDrop(d) == pc = <<"idle", "">> /\ d \in opened /\ pc' = <<"drop", d>>
                /\ todo' = (IF MarkOthers THEN {o \in opened \ {d} : ~dirtyFlag[o]} ELSE {})
                /\ UNCHANGED <<dur, opened, dirtyFlag, fid, hist, res>>
DropMark(o) == pc[1] = "drop" /\ o \in todo /\ todo' = todo \ {o}
               /\ dirtyFlag' = [dirtyFlag EXCEPT ![o] = TRUE]
               /\ dur' = [dur EXCEPT ![o].mark = <<"D", 0>>]
               /\ UNCHANGED <<opened, pc, fid, hist, res>>
DoDrop == pc[1] = "drop" /\ todo = {}
          /\ dur' = [dur EXCEPT ![pc[2]] = [ex |-> FALSE, data |-> EmptyData, mark |-> NoMark]]
          /\ opened' = opened \ {pc[2]} /\ pc' = <<"idle", "">>
          /\ UNCHANGED <<dirtyFlag, todo, fid, hist, res>>
StartFlush == pc = <<"idle", "">> /\ fid < MaxFlush /\ opened # {} /\ fid' = fid + 1 /\ pc' = <<"clean", "">> /\ todo' = opened
              /\ UNCHANGED <<dur, opened, dirtyFlag, hist, res>>
DoClean(d) == /\ pc = <<"clean", "">> /\ d \in todo /\ todo' = todo \ {d}
              /\ dur' = [dur EXCEPT ![d].mark = <<"C", fid>>]
              /\ dirtyFlag' = [dirtyFlag EXCEPT ![d] = FALSE]
              /\ IF todo = {d} THEN /\ pc' = <<"idle", "">>
                                    /\ hist' = [i \in DOMAIN hist \cup {fid} |-> IF i = fid THEN [x \in DBs |-> dur'[x].data] ELSE hist[i]]
                 ELSE UNCHANGED <<pc, hist>>
              /\ UNCHANGED <<opened, fid, res>>
Surv == {d \in DBs : dur[d].ex}
Marks == {dur[d].mark : d \in Surv}
Verdict == IF \E m \in Marks : m[1] = "D" THEN "dirty"
           ELSE LET cm == {m \in Marks : m[1] = "C"} IN
                IF Cardinality(cm) > 1 THEN "unsynced"
                ELSE IF cm # {} /\ NoMark \in Marks THEN "noninit"
                ELSE IF cm = {} THEN "ok0" ELSE "ok"
Crash == pc[1] # "crashed" /\ pc' = <<"crashed", "">> /\ res' = Verdict /\ UNCHANGED <<dur, opened, dirtyFlag, todo, fid, hist>>
Next == \/ \E d \in DBs : Open(d) \/ MarkDirty(d) \/ StartDrop(d) \/ DropMark(d) \/ DoClean(d)
        \/ \E d \in DBs, k \in Keys, v \in Vals \cup {Absent} : Put(d, k, v)
        \/ DoDrop \/ StartFlush \/ Crash
Spec == Init /\ [][Next]_vars
OkId == (CHOOSE m \in Marks : m[1] = "C")[2]
CrashConsistent ==
  pc[1] = "crashed" =>
    \/ res \in {"dirty", "unsynced", "noninit"}
    \/ res = "ok0" /\ \A d \in DBs : dur[d].data = EmptyData
    \/ res = "ok" /\ OkId \in DOMAIN hist /\ \A d \in DBs : dur[d].data = hist[OkId][d]
====
