CONSTANTS N = 3  W <- W3 MaxSeq = 3 MaxEv = 9 Forkers <- NoForkers HeadsOnly = TRUE
SPECIFICATION Spec
INVARIANTS AtroposIsRoot NoDoubleConfirm
PROPERTY BlocksMonotone
