---- MODULE LRU ----
EXTENDS Integers, Sequences, FiniteSets, TLC, Json, SequencesExt
CONSTANTS Keys, Weights, MaxW, MaxN, Depth
VARIABLES q,      \* sequence of [k, w] oldest first
          act,    \* last action + outputs (output only)
          n
vars == <<q, act, n>>
View == <<q, n>>
RECURSIVE TotW(_)
TotW(s) == IF s = <<>> THEN 0 ELSE Head(s).w + TotW(Tail(s))
RECURSIVE Norm(_)
Norm(s) == IF s # <<>> /\ (TotW(s) > MaxW \/ Len(s) > MaxN) THEN Norm(Tail(s)) ELSE s
Without(s, k) == SelectSeq(s, LAMBDA e : e.k # k)
Has(s, k) == \E i \in 1..Len(s) : s[i].k = k
Init == q = <<>> /\ act = [op |-> "init"] /\ n = 0
Add(k, w) == LET s == Norm(Append(Without(q, k), [k |-> k, w |-> w])) IN
             /\ q' = s
             /\ act' = [op |-> "add", k |-> k, w |-> w, evicted |-> Len(Without(q,k)) + 1 - Len(s)]
Gt(k) == /\ q' = (IF Has(q, k) THEN Append(Without(q, k), CHOOSE e \in {q[i] : i \in 1..Len(q)} : e.k = k) ELSE q)
          /\ act' = [op |-> "get", k |-> k, ok |-> Has(q, k)]
Rm(k) == /\ q' = Without(q, k) /\ act' = [op |-> "remove", k |-> k, ok |-> Has(q, k)]
Next == /\ n < Depth /\ n' = n + 1
        /\ \/ \E k \in Keys, w \in Weights : Add(k, w)
           \/ \E k \in Keys : Gt(k)
           \/ \E k \in Keys : Rm(k)
Spec == Init /\ [][Next]_vars
Bounded == TotW(q) <= MaxW /\ Len(q) <= MaxN
Emit == PrintT(<<"EDGE", ToJson([pre |-> q, act |-> act', post |-> q'])>>)
====
