---- MODULE Quorum ----
EXTENDS Integers
VARIABLES
  \* @type: Int;
  t,
  \* @type: Int;
  a,
  \* @type: Int;
  b,
  \* @type: Int;
  ab
MaxTotal == 2147483647
\* uint32 arithmetic exactly as the code computes it
Q32(x) == (((x * 2) % 4294967296) \div 3 + 1) % 4294967296
Q(x) == (2 * x) \div 3 + 1
Init ==
  /\ t \in 1..MaxTotal
  /\ a \in 0..MaxTotal /\ b \in 0..MaxTotal /\ ab \in 0..MaxTotal
  /\ a <= t /\ b <= t /\ ab <= a /\ ab <= b /\ a + b - ab <= t   \* a,b subset weights, ab = weight of intersection
Next == UNCHANGED <<t, a, b, ab>>
Safe ==
  /\ Q32(t) = Q(t)                                   \* no overflow
  /\ t >= Q(t)                                       \* the whole set reaches quorum
  /\ (3 * a <= 2 * t => a < Q(t))                    \* <= 2/3 never reaches
  /\ (a >= Q(t) /\ b >= Q(t) => 3 * ab > t)          \* two quorums share > 1/3
====
