CONSTANTS DBs <- MDBs Keys <- MKeys Vals <- MVals MaxFlush = 2 MarkOthers = TRUE
SPECIFICATION Spec
INVARIANT CrashConsistent
CHECK_DEADLOCK FALSE
