CONSTANTS N = 2  W <- W2b MaxSeq = 5 MaxEv = 10 Forkers <- NoForkers HeadsOnly = FALSE
SPECIFICATION Spec
INVARIANTS AtroposIsRoot NoDoubleConfirm
PROPERTY BlocksMonotone
