CONSTANTS N = 3 W <- W3b MaxEv = 6 MaxSeq = 3 MaxForks = 1
SPECIFICATION Spec
INVARIANTS FCMatches MergedMatches
CHECK_DEADLOCK FALSE
