---- MODULE LProto ----
EXTENDS Integers, Sequences, FiniteSets, TLC

CONSTANTS N, W, MaxSeq, MaxEv, Forkers, HeadsOnly

V == 1..N
RECURSIVE SumW(_)
SumW(S) == IF S = {} THEN 0 ELSE LET v == CHOOSE x \in S : TRUE IN W[v] + SumW(S \ {v})
Total == SumW(V)
Quorum == (2 * Total) \div 3 + 1
None == <<0,0,0>>

VARIABLES ev,      \* id -> [sp: id or None, ps: set of ids (all parents incl. sp), fr: frame]
          anc,     \* id -> set of ids (ancestors or self)
          blocks,  \* sequence of [atr, cheaters, evs]
          forked   \* set of validators who already forked
vars == <<ev, anc, blocks, forked>>

Ids == DOMAIN ev
Cr(e) == e[1]
Sq(e) == e[2]

\* ---------- graph definitions
ForkSeenIn(A, v) == \E x \in A, y \in A : x # y /\ Cr(x) = v /\ Cr(y) = v /\ Sq(x) = Sq(y)

\* "a (with ancestor set A) is forkless caused by b"
FCset(A, b, ancf) ==
  /\ ~ForkSeenIn(A, Cr(b))
  /\ SumW({v \in V : ~ForkSeenIn(A, v) /\ \E x \in A : Cr(x) = v /\ b \in ancf[x]}) >= Quorum

SpFrame(evf, e) == IF evf[e].sp = None THEN 0 ELSE evf[evf[e].sp].fr
RootsAt(evf, f) == {e \in DOMAIN evf : SpFrame(evf, e) < f /\ f <= evf[e].fr}

\* frame rule for a new event with ancestor set A (incl. itself) and self-parent frame sf
FCQ(evf, ancf, A, f) == SumW({Cr(r) : r \in {r \in RootsAt(evf, f) : FCset(A, r, ancf)}}) >= Quorum
RECURSIVE Climb(_,_,_,_)
Climb(evf, ancf, A, f) == IF FCQ(evf, ancf, A, f) THEN Climb(evf, ancf, A, f+1) ELSE f
FrameOf(evf, ancf, A, sf) == LET f == Climb(evf, ancf, A, sf) IN IF f = 0 THEN 1 ELSE f

\* ---------- declarative election over full DAG (evf, ancf)
FC(evf, ancf, a, b) == FCset(ancf[a], b, ancf)

RECURSIVE VoteYes(_,_,_,_,_,_)
\* vote of root r at frame f (> d) for subject v when deciding frame d
VoteYes(evf, ancf, r, f, v, d) ==
  IF f = d + 1
  THEN \E x \in RootsAt(evf, d) : Cr(x) = v /\ FC(evf, ancf, r, x)
  ELSE LET obs == {x \in RootsAt(evf, f-1) : FC(evf, ancf, r, x)}
           yes == SumW({Cr(x) : x \in {x \in obs : VoteYes(evf, ancf, x, f-1, v, d)}})
           no  == SumW({Cr(x) : x \in {x \in obs : ~VoteYes(evf, ancf, x, f-1, v, d)}})
       IN yes >= no

TallyDecides(evf, ancf, r, f, v, d) ==  \* f >= d+2
  LET obs == {x \in RootsAt(evf, f-1) : FC(evf, ancf, r, x)}
      yes == SumW({Cr(x) : x \in {x \in obs : VoteYes(evf, ancf, x, f-1, v, d)}})
      no  == SumW({Cr(x) : x \in {x \in obs : ~VoteYes(evf, ancf, x, f-1, v, d)}})
  IN IF yes >= Quorum THEN "Y" ELSE IF no >= Quorum THEN "N" ELSE "-"

MaxFrame(evf) == IF DOMAIN evf = {} THEN 0 ELSE CHOOSE m \in {evf[e].fr : e \in DOMAIN evf} : \A e \in DOMAIN evf : evf[e].fr <= m

\* decision on subject v for frame d : "Y", "N" or "-"
SubjDecision(evf, ancf, v, d) ==
  LET cands == {<<r, f>> \in (DOMAIN evf) \X ((d+2)..MaxFrame(evf)) : r \in RootsAt(evf, f)}
      ys == {c \in cands : TallyDecides(evf, ancf, c[1], c[2], v, d) = "Y"}
      ns == {c \in cands : TallyDecides(evf, ancf, c[1], c[2], v, d) = "N"}
  IN IF ys # {} THEN "Y" ELSE IF ns # {} THEN "N" ELSE "-"

\* the root of v at frame d which is voted yes
RECURSIVE FirstYes(_,_,_,_)
FirstYes(evf, ancf, d, i) ==   \* i: index in canonical order 1..N
  IF i > N THEN 0
  ELSE LET dec == SubjDecision(evf, ancf, i, d) IN
       IF dec = "-" THEN 0
       ELSE IF dec = "Y" THEN i
       ELSE FirstYes(evf, ancf, d, i+1)

AtroposOf(evf, ancf, d) ==
  LET v == FirstYes(evf, ancf, d, 1) IN
  IF v = 0 THEN None
  ELSE \* the root of v at d observed by a deciding root; unique when < 1/3 fork
       CHOOSE x \in RootsAt(evf, d) : Cr(x) = v /\
          \E r \in DOMAIN evf : \E f \in (d+1)..MaxFrame(evf) : r \in RootsAt(evf, f) /\ f = d+1 /\ FC(evf, ancf, r, x)

Cheaters(A) == {v \in V : ForkSeenIn(A, v)}

RECURSIVE DeclBlocks(_,_,_,_)
DeclBlocks(evf, ancf, d, confirmed) ==
  LET a == AtroposOf(evf, ancf, d) IN
  IF a = None THEN <<>>
  ELSE <<[atr |-> a, ch |-> Cheaters(ancf[a]), evs |-> ancf[a] \ confirmed]>> \o
       DeclBlocks(evf, ancf, d+1, confirmed \cup ancf[a])

\* ---------- state machine
Init == ev = <<>> /\ anc = <<>> /\ blocks = <<>> /\ forked = {}

Heads(c) == {e \in Ids : Cr(e) = c /\ ~\E x \in Ids : ev[x].sp = e}
MainHead(c) == {e \in Ids : Cr(e) = c /\ e[3] = 0 /\ ~\E x \in Ids : Cr(x) = c /\ x[3] = 0 /\ Sq(x) > Sq(e)}

Create(c, sp, others, k) ==
  LET s == IF sp = None THEN 1 ELSE Sq(sp) + 1
      id == <<c, s, k>>
      ps == (IF sp = None THEN {} ELSE {sp}) \cup others
      A == {id} \cup UNION {anc[p] : p \in ps}
      sf == IF sp = None THEN 0 ELSE ev[sp].fr
      ancN == [x \in Ids \cup {id} |-> IF x = id THEN A ELSE anc[x]]
      f == FrameOf(ev, ancN, A, sf)
      evN == [x \in Ids \cup {id} |-> IF x = id THEN [sp |-> sp, ps |-> ps, fr |-> f] ELSE ev[x]]
  IN /\ id \notin Ids
     /\ ev' = evN
     /\ anc' = ancN
     /\ blocks' = DeclBlocks(evN, ancN, 1, {})

OtherChoices(c) ==
  IF HeadsOnly
  THEN {S \in SUBSET (UNION {MainHead(o) : o \in V \ {c}}) : TRUE}
  ELSE {S \in SUBSET {e \in Ids : Cr(e) # c} : \A x \in S, y \in S : x # y => Cr(x) # Cr(y)}

Next ==
  /\ Cardinality(Ids) < MaxEv
  /\ \E c \in V :
       \/ \* honest continuation
          /\ \E others \in OtherChoices(c) :
               LET h == MainHead(c) IN
               IF h = {} THEN Create(c, None, others, 0)
               ELSE LET hh == CHOOSE x \in h : TRUE IN Sq(hh) < MaxSeq /\ Create(c, hh, others, 0)
          /\ UNCHANGED forked
       \/ \* fork: new branch from an older event or from nothing
          /\ c \in Forkers /\ c \notin forked
          /\ MainHead(c) # {}
          /\ \E sp \in ({e \in Ids : Cr(e) = c /\ e \notin MainHead(c)} \cup {None}) :
             \E others \in OtherChoices(c) : Create(c, sp, others, 1)
          /\ forked' = forked \cup {c}

Spec == Init /\ [][Next]_vars

\* ---------- properties
BlocksMonotone == [][Len(blocks') >= Len(blocks) /\ SubSeq(blocks', 1, Len(blocks)) = blocks]_vars
AtroposIsRoot == \A i \in 1..Len(blocks) : blocks[i].atr \in RootsAt(ev, i)
NoDoubleConfirm == \A i, j \in 1..Len(blocks) : i # j => blocks[i].evs \cap blocks[j].evs = {}
SomeBlock == Len(blocks) < 2
====
