CONSTANTS Keys = {1,2,3} Weights = {1,2,4} MaxW = 4 MaxN = 2 Depth = 4
SPECIFICATION Spec
INVARIANT Bounded
VIEW View
ACTION_CONSTRAINT Emit
CHECK_DEADLOCK FALSE
