CONSTANTS DBs <- MDBs Keys <- MKeys Vals <- MVals MaxFlush = 2 DropsFirst = TRUE
SPECIFICATION Spec
INVARIANT CrashConsistent
CHECK_DEADLOCK FALSE
